//! Domain UINT: typed option values (`option_value.rs`) and the typed
//! getters/setters of `Packet` – C06.
//!   UINT enc <w> <n>      -> hex | panic
//!   UINT dec <w> <hex>    -> ok <n> | err | panic
//!   UINT sdec <hex>       -> ok <hex> | err
//!   UINT acc <op;op;...>  -> outputs of the get ops joined by ' / '
//!       ops: addu w num x | adds num hex | addraw num hex | setu w num x,y,.. | sets num hex,hex,.. | clr num
//!            getu w num | gets num | firstu w num | firsts num | raw num | obs x | getobs
use crate::pkt::{parse_val, val_token};
use crate::{guarded, hex, Ctx, Rng};
use coap_lite::option_value::{OptionValueString, OptionValueU16, OptionValueU32, OptionValueU64, OptionValueU8};
use coap_lite::{CoapOption, Packet};
use std::collections::LinkedList;
use std::convert::TryFrom;

fn min_be(mut v: u64) -> Vec<u8> {
    let mut out = vec![];
    while v > 0 {
        out.push((v & 0xff) as u8);
        v >>= 8;
    }
    out.reverse();
    out
}

fn enc_w(w: u32, n: u64) -> Option<Vec<u8>> {
    guarded(|| match w {
        1 => Vec::<u8>::from(OptionValueU8(n as u8)),
        2 => Vec::<u8>::from(OptionValueU16(n as u16)),
        4 => Vec::<u8>::from(OptionValueU32(n as u32)),
        _ => Vec::<u8>::from(OptionValueU64(n)),
    })
}

fn dec_w(w: u32, b: &[u8]) -> Option<Result<u64, ()>> {
    let v = b.to_vec();
    guarded(|| match w {
        1 => OptionValueU8::try_from(v).map(|x| x.0 as u64).map_err(|_| ()),
        2 => OptionValueU16::try_from(v).map(|x| x.0 as u64).map_err(|_| ()),
        4 => OptionValueU32::try_from(v).map(|x| x.0 as u64).map_err(|_| ()),
        _ => OptionValueU64::try_from(v).map(|x| x.0).map_err(|_| ()),
    })
}

fn show_dec(r: &Option<Result<u64, ()>>) -> String {
    match r {
        None => "panic".into(),
        Some(Ok(n)) => format!("ok {}", n),
        Some(Err(_)) => "err".into(),
    }
}

pub fn do_enc(cx: &mut Ctx, w: u32, n: u64) {
    let line = format!("UINT enc {} {}", w, n);
    let r = enc_w(w, n);
    cx.case(&line, &r.as_ref().map(|b| hex(b)).unwrap_or("panic".into()));
    let want = min_be(n);
    match &r {
        Some(b) if *b == want => {
            let back = dec_w(w, b);
            if back != Some(Ok(n)) {
                cx.oracle_fail("C06", &line, &format!("decode(encode({})) = {}", n, show_dec(&back)));
            }
        }
        Some(b) => cx.oracle_fail("C06", &line, &format!("{} encodes as {} instead of the minimal big-endian {}", n, hex(b), hex(&want))),
        None => cx.oracle_fail("C06", &line, "encoding panics"),
    }
    if n >= 256 {
        cx.nontrivial(&line);
    }
}

pub fn do_dec(cx: &mut Ctx, w: u32, b: &[u8]) {
    let line = format!("UINT dec {} {}", w, hex(b));
    let r = dec_w(w, b);
    cx.case(&line, &show_dec(&r));
    let want = if b.len() > w as usize {
        Some(Err(()))
    } else {
        Some(Ok(b.iter().fold(0u64, |a, &x| (a << 8) | x as u64)))
    };
    if r != want {
        cx.oracle_fail("C06", &line, &format!("decoding gives {} instead of {}", show_dec(&r), show_dec(&want)));
    }
    if b.len() <= w as usize && !b.is_empty() {
        cx.nontrivial(&line);
    }
}

/// independent UTF-8 well-formedness check (RFC 3629 / Unicode table 3-7)
pub fn utf8_ok(b: &[u8]) -> bool {
    let mut i = 0;
    while i < b.len() {
        let c = b[i];
        let (n, lo, hi) = match c {
            0x00..=0x7F => (0, 0x80, 0xBF),
            0xC2..=0xDF => (1, 0x80, 0xBF),
            0xE0 => (2, 0xA0, 0xBF),
            0xE1..=0xEC | 0xEE..=0xEF => (2, 0x80, 0xBF),
            0xED => (2, 0x80, 0x9F),
            0xF0 => (3, 0x90, 0xBF),
            0xF1..=0xF3 => (3, 0x80, 0xBF),
            0xF4 => (3, 0x80, 0x8F),
            _ => return false,
        };
        if i + n >= b.len() + if n == 0 { 1 } else { 0 } && n > 0 {
            return false;
        }
        for k in 1..=n {
            if i + k >= b.len() {
                return false;
            }
            let x = b[i + k];
            let (l, h) = if k == 1 { (lo, hi) } else { (0x80, 0xBF) };
            if x < l || x > h {
                return false;
            }
        }
        i += n + 1;
    }
    true
}

pub fn do_sdec(cx: &mut Ctx, b: &[u8]) {
    let line = format!("UINT sdec {}", hex(b));
    let r = OptionValueString::try_from(b.to_vec());
    let s = match &r {
        Ok(s) => format!("ok {}", hex(s.0.as_bytes())),
        Err(_) => "err".into(),
    };
    cx.case(&line, &s);
    let valid = utf8_ok(b);
    match (&r, valid) {
        (Ok(s), true) => {
            if s.0.as_bytes() != b || Vec::<u8>::from(OptionValueString(s.0.clone())) != b {
                cx.oracle_fail("C06", &line, "string option does not round-trip");
            }
            cx.nontrivial(&line);
        }
        (Err(_), false) => cx.stat("sdec_invalid_rejected"),
        (Ok(_), false) => cx.oracle_fail("C06", &line, "invalid UTF-8 accepted as a text option"),
        (Err(_), true) => cx.oracle_fail("C06", &line, "valid UTF-8 rejected as a text option"),
    }
}

fn random_string(rng: &mut Rng) -> String {
    let n = rng.below(12) as usize;
    let mut s = String::new();
    for _ in 0..n {
        let c = match rng.below(6) {
            0 => rng.range(0x20, 0x7e) as u32,
            1 => rng.range(0x80, 0x7ff) as u32,
            2 => rng.range(0x800, 0xd7ff) as u32,
            3 => rng.range(0xe000, 0xffff) as u32,
            4 => rng.range(0x10000, 0x10ffff) as u32,
            _ => *rng.pick(&[0u32, 0x7f, 0x80, 0x7ff, 0x800, 0xfffd, 0xffff, 0x10000, 0x10ffff, 0x1f601]),
        };
        if let Some(ch) = char::from_u32(c) {
            s.push(ch);
        }
    }
    s
}

// ---- accessor sequences

pub fn acc_case(cx: &mut Ctx, ops: &[String]) {
    let line = format!("UINT acc {}", ops.join(";"));
    // reference: per option number, the list of raw values
    let mut refm: std::collections::BTreeMap<u16, Vec<Vec<u8>>> = Default::default();
    let mut ref_out: Vec<String> = vec![];
    let mut ref_ok = true;
    let r = guarded(|| {
        let mut p = Packet::new();
        let mut outs: Vec<String> = vec![];
        for op in ops {
            let f: Vec<&str> = op.split(' ').collect();
            match f[0] {
                "addu" => {
                    let w: u32 = f[1].parse().unwrap();
                    let num: u16 = f[2].parse().unwrap();
                    let x: u64 = f[3].parse().unwrap();
                    let o = CoapOption::from(num);
                    match w {
                        1 => p.add_option_as(o, OptionValueU8(x as u8)),
                        2 => p.add_option_as(o, OptionValueU16(x as u16)),
                        4 => p.add_option_as(o, OptionValueU32(x as u32)),
                        _ => p.add_option_as(o, OptionValueU64(x)),
                    }
                }
                "adds" => {
                    let num: u16 = f[1].parse().unwrap();
                    let s = String::from_utf8(parse_val(f[2])).unwrap();
                    p.add_option_as(CoapOption::from(num), OptionValueString(s));
                }
                "addraw" => {
                    let num: u16 = f[1].parse().unwrap();
                    p.add_option(CoapOption::from(num), parse_val(f[2]));
                }
                "setu" => {
                    let w: u32 = f[1].parse().unwrap();
                    let num: u16 = f[2].parse().unwrap();
                    let xs: Vec<u64> = if f[3] == "_" { vec![] } else { f[3].split(',').map(|x| x.parse().unwrap()).collect() };
                    let o = CoapOption::from(num);
                    match w {
                        1 => p.set_options_as(o, xs.iter().map(|&x| OptionValueU8(x as u8)).collect::<LinkedList<_>>()),
                        2 => p.set_options_as(o, xs.iter().map(|&x| OptionValueU16(x as u16)).collect::<LinkedList<_>>()),
                        4 => p.set_options_as(o, xs.iter().map(|&x| OptionValueU32(x as u32)).collect::<LinkedList<_>>()),
                        _ => p.set_options_as(o, xs.iter().map(|&x| OptionValueU64(x)).collect::<LinkedList<_>>()),
                    }
                }
                "sets" => {
                    let num: u16 = f[1].parse().unwrap();
                    let xs: LinkedList<OptionValueString> = if f[2] == "_" {
                        LinkedList::new()
                    } else {
                        f[2].split(',').map(|x| OptionValueString(String::from_utf8(parse_val(x)).unwrap())).collect()
                    };
                    p.set_options_as(CoapOption::from(num), xs);
                }
                "clr" => p.clear_option(CoapOption::from(f[1].parse::<u16>().unwrap())),
                "obs" => p.set_observe_value(f[1].parse().unwrap()),
                "getobs" => outs.push(match p.get_observe_value() {
                    None => "none".into(),
                    Some(Ok(v)) => format!("ok {}", v),
                    Some(Err(_)) => "err".into(),
                }),
                "getu" | "firstu" => {
                    let w: u32 = f[1].parse().unwrap();
                    let num: u16 = f[2].parse().unwrap();
                    let o = CoapOption::from(num);
                    let all: Option<Vec<Result<u64, ()>>> = match w {
                        1 => p.get_options_as::<OptionValueU8>(o).map(|l| l.into_iter().map(|r| r.map(|x| x.0 as u64).map_err(|_| ())).collect()),
                        2 => p.get_options_as::<OptionValueU16>(o).map(|l| l.into_iter().map(|r| r.map(|x| x.0 as u64).map_err(|_| ())).collect()),
                        4 => p.get_options_as::<OptionValueU32>(o).map(|l| l.into_iter().map(|r| r.map(|x| x.0 as u64).map_err(|_| ())).collect()),
                        _ => p.get_options_as::<OptionValueU64>(o).map(|l| l.into_iter().map(|r| r.map(|x| x.0).map_err(|_| ())).collect()),
                    };
                    let first: Option<Result<u64, ()>> = match w {
                        1 => p.get_first_option_as::<OptionValueU8>(o).map(|r| r.map(|x| x.0 as u64).map_err(|_| ())),
                        2 => p.get_first_option_as::<OptionValueU16>(o).map(|r| r.map(|x| x.0 as u64).map_err(|_| ())),
                        4 => p.get_first_option_as::<OptionValueU32>(o).map(|r| r.map(|x| x.0 as u64).map_err(|_| ())),
                        _ => p.get_first_option_as::<OptionValueU64>(o).map(|r| r.map(|x| x.0).map_err(|_| ())),
                    };
                    let sh = |r: &Result<u64, ()>| match r {
                        Ok(v) => v.to_string(),
                        Err(_) => "err".into(),
                    };
                    if f[0] == "getu" {
                        outs.push(match all {
                            None => "none".into(),
                            Some(l) => format!("[{}]", l.iter().map(sh).collect::<Vec<_>>().join(",")),
                        });
                    } else {
                        outs.push(match first {
                            None => "none".into(),
                            Some(r) => sh(&r),
                        });
                    }
                }
                "gets" | "firsts" => {
                    let num: u16 = f[1].parse().unwrap();
                    let o = CoapOption::from(num);
                    let sh = |r: &Result<OptionValueString, coap_lite::error::IncompatibleOptionValueFormat>| match r {
                        Ok(v) => hex(v.0.as_bytes()),
                        Err(_) => "err".into(),
                    };
                    if f[0] == "gets" {
                        outs.push(match p.get_options_as::<OptionValueString>(o) {
                            None => "none".into(),
                            Some(l) => format!("[{}]", l.iter().map(sh).collect::<Vec<_>>().join(",")),
                        });
                    } else {
                        outs.push(match p.get_first_option_as::<OptionValueString>(o) {
                            None => "none".into(),
                            Some(r) => sh(&r),
                        });
                    }
                }
                "raw" => {
                    let num: u16 = f[1].parse().unwrap();
                    outs.push(match p.get_option(CoapOption::from(num)) {
                        None => "none".into(),
                        Some(l) => format!("[{}]", l.iter().map(|v| val_token(v)).collect::<Vec<_>>().join(",")),
                    });
                }
                _ => panic!("bad op"),
            }
        }
        outs
    });
    // reference evaluation (element by element, in order)
    for op in ops {
        let f: Vec<&str> = op.split(' ').collect();
        let widthmask = |w: u32, x: u64| if w >= 8 { x } else { x & ((1u64 << (8 * w)) - 1) };
        match f[0] {
            "addu" => {
                let w: u32 = f[1].parse().unwrap();
                refm.entry(f[2].parse().unwrap()).or_default().push(min_be(widthmask(w, f[3].parse().unwrap())))
            }
            "adds" | "addraw" => refm.entry(f[1].parse().unwrap()).or_default().push(parse_val(f[2])),
            "setu" => {
                let w: u32 = f[1].parse().unwrap();
                let xs: Vec<Vec<u8>> = if f[3] == "_" { vec![] } else { f[3].split(',').map(|x| min_be(widthmask(w, x.parse().unwrap()))).collect() };
                refm.insert(f[2].parse().unwrap(), xs);
            }
            "sets" => {
                let xs: Vec<Vec<u8>> = if f[2] == "_" { vec![] } else { f[2].split(',').map(parse_val).collect() };
                refm.insert(f[1].parse().unwrap(), xs);
            }
            "clr" => {
                if let Some(l) = refm.get_mut(&f[1].parse().unwrap()) {
                    l.clear()
                }
            }
            "obs" => {
                refm.insert(6, vec![min_be(f[1].parse().unwrap())]);
            }
            "getobs" => ref_out.push(match refm.get(&6).and_then(|l| l.first()) {
                None => "none".into(),
                Some(b) if b.len() > 4 => "err".into(),
                Some(b) => format!("ok {}", b.iter().fold(0u64, |a, &x| (a << 8) | x as u64)),
            }),
            "getu" | "firstu" => {
                let w: usize = f[1].parse().unwrap();
                let sh = |b: &Vec<u8>| if b.len() > w { "err".to_string() } else { b.iter().fold(0u64, |a, &x| (a << 8) | x as u64).to_string() };
                let l = refm.get(&f[2].parse().unwrap());
                if f[0] == "getu" {
                    ref_out.push(match l {
                        None => "none".into(),
                        Some(l) => format!("[{}]", l.iter().map(sh).collect::<Vec<_>>().join(",")),
                    });
                } else {
                    ref_out.push(match l.and_then(|l| l.first()) {
                        None => "none".into(),
                        Some(b) => sh(b),
                    });
                }
            }
            "gets" | "firsts" => {
                let sh = |b: &Vec<u8>| if utf8_ok(b) { hex(b) } else { "err".to_string() };
                let l = refm.get(&f[1].parse().unwrap());
                if f[0] == "gets" {
                    ref_out.push(match l {
                        None => "none".into(),
                        Some(l) => format!("[{}]", l.iter().map(sh).collect::<Vec<_>>().join(",")),
                    });
                } else {
                    ref_out.push(match l.and_then(|l| l.first()) {
                        None => "none".into(),
                        Some(b) => sh(b),
                    });
                }
            }
            "raw" => ref_out.push(match refm.get(&f[1].parse().unwrap()) {
                None => "none".into(),
                Some(l) => format!("[{}]", l.iter().map(|v| val_token(v)).collect::<Vec<_>>().join(",")),
            }),
            _ => ref_ok = false,
        }
    }
    match &r {
        None => {
            cx.case(&line, "panic");
            cx.oracle_fail("C06", &line, "typed accessor sequence panicked");
        }
        Some(outs) => {
            let s = outs.join(" / ");
            cx.case(&line, &s);
            if ref_ok && s != ref_out.join(" / ") {
                cx.oracle_fail("C06", &line, &format!("typed accessors return {} but element-by-element reference gives {}", s, ref_out.join(" / ")));
            }
            cx.nontrivial(&line);
        }
    }
}

pub fn run(cx: &mut Ctx) {
    let thorough = cx.tier_thorough;
    let mut rng = Rng(cx.seed ^ 0x55494e54);
    // exhaustive 8- and 16-bit values
    for n in 0..=255u64 {
        do_enc(cx, 1, n);
    }
    for n in 0..=65535u64 {
        do_enc(cx, 2, n);
    }
    cx.exhaustive.push("encode/decode of every 8-bit and 16-bit value".into());
    // 32/64: powers of two, 256^k neighbours, random
    for w in [4u32, 8] {
        let bits = 8 * w;
        for k in 0..bits {
            let p = 1u64 << k;
            for d in [-1i64, 0, 1] {
                let v = (p as i128 + d as i128) as u64;
                if w == 8 || v <= u32::MAX as u64 {
                    do_enc(cx, w, v);
                }
            }
        }
        do_enc(cx, w, if w == 4 { u32::MAX as u64 } else { u64::MAX });
        let n = if thorough { 100_000 } else { 20_000 };
        for _ in 0..n {
            let v = rng.next() >> rng.below(64);
            do_enc(cx, w, if w == 4 { v & 0xffff_ffff } else { v });
        }
    }
    // decode: all byte strings of length <= 2 (<= 3 thorough) at every width
    for w in [1u32, 2, 4, 8] {
        do_dec(cx, w, &[]);
        for a in 0..=255u8 {
            do_dec(cx, w, &[a]);
            for b in 0..=255u8 {
                if w != 2 && !thorough && !(a < 2 || a > 253 || b < 2 || b > 253 || a == 0x80) {
                    continue;
                }
                do_dec(cx, w, &[a, b]);
                if thorough && w == 4 {
                    for c in 0..=255u8 {
                        do_dec(cx, w, &[a, b, c]);
                    }
                }
            }
        }
        for n in 0..=10usize {
            for _ in 0..300 {
                let mut v = rng.bytes(n);
                if rng.chance(1, 3) && n > 0 {
                    v[0] = 0;
                }
                do_dec(cx, w, &v);
            }
            do_dec(cx, w, &vec![0u8; n]);
            do_dec(cx, w, &vec![0xffu8; n]);
        }
    }
    cx.exhaustive.push("decode of every byte string of length <= 2 as a 16-bit value".into());
    // strings
    let ns = if thorough { 50_000 } else { 10_000 };
    for _ in 0..ns {
        let s = random_string(&mut rng);
        do_sdec(cx, s.as_bytes());
        // ill-formed neighbours: truncation, byte flip, overlong, surrogate
        let b = s.as_bytes().to_vec();
        if !b.is_empty() {
            let k = rng.below(b.len() as u64) as usize;
            do_sdec(cx, &b[..k]);
            let mut c = b.clone();
            c[k] ^= 1 << rng.below(8);
            do_sdec(cx, &c);
        }
    }
    // strings with special code points at the start / end (BOM, non-characters, separators, NUL)
    for sp in ['\u{feff}', '\u{fffe}', '\u{ffff}', '\u{0}', '\u{2028}', '\u{200b}', '\u{e000}', '\u{10ffff}', '\u{85}', '\u{a0}', '\u{b}'] {
        for body in ["", "a", "sensors", "a=1", "\u{e9}"] {
            do_sdec(cx, format!("{}{}", sp, body).as_bytes());
            do_sdec(cx, format!("{}{}", body, sp).as_bytes());
            do_sdec(cx, format!("{}{}{}", sp, body, sp).as_bytes());
            acc_case(cx, &[format!("adds 11 {}", hex(format!("{}{}", sp, body).as_bytes())), "gets 11".into(), "raw 11".into()]);
        }
    }
    for bad in [vec![0xc0u8, 0x80], vec![0xc1, 0xbf], vec![0xe0, 0x80, 0x80], vec![0xe0, 0x9f, 0xbf], vec![0xed, 0xa0, 0x80], vec![0xed, 0xbf, 0xbf], vec![0xf0, 0x80, 0x80, 0x80], vec![0xf0, 0x8f, 0xbf, 0xbf], vec![0xf4, 0x90, 0x80, 0x80], vec![0xf5, 0x80, 0x80, 0x80], vec![0xff], vec![0xfe], vec![0x80], vec![0xbf], vec![0xe2, 0x82], vec![0xf0, 0x9f, 0x98], vec![0xf8, 0x88, 0x80, 0x80, 0x80], vec![0xed, 0x9f, 0xbf], vec![0xee, 0x80, 0x80], vec![0xf4, 0x8f, 0xbf, 0xbf], vec![0xc2, 0x80], vec![0xdf, 0xbf], vec![0xe0, 0xa0, 0x80]] {
        do_sdec(cx, &bad);
    }
    for a in 0..=255u8 {
        do_sdec(cx, &[a]);
        for b in [0u8, 0x7f, 0x80, 0x8f, 0x90, 0x9f, 0xa0, 0xbf, 0xc0, 0xff] {
            do_sdec(cx, &[a, b]);
            do_sdec(cx, &[a, b, 0x80]);
            do_sdec(cx, &[a, b, 0xbf, 0x80]);
        }
    }
    // typed accessor sequences
    let nacc = if thorough { 40_000 } else { 8_000 };
    let nums = [6u16, 11, 12, 14, 60, 258, 1000];
    for _ in 0..nacc {
        let n = rng.range(1, 7) as usize;
        let mut ops: Vec<String> = vec![];
        for _ in 0..n {
            let num = *rng.pick(&nums);
            let w = *rng.pick(&[1u32, 2, 4, 8]);
            let val = |rng: &mut Rng, w: u32| -> u64 {
                let v = match rng.below(5) {
                    0 => 0,
                    1 => rng.below(256),
                    2 => rng.below(65536),
                    3 => rng.next() >> rng.below(64),
                    _ => *rng.pick(&[255u64, 256, 65535, 65536, 0xffff_ffff, 0x1_0000_0000, u64::MAX]),
                };
                if w >= 8 { v } else { v & ((1u64 << (8 * w)) - 1) }
            };
            ops.push(match rng.below(12) {
                0 | 1 => format!("addu {} {} {}", w, num, val(&mut rng, w)),
                2 => format!("adds {} {}", num, hex(random_string(&mut rng).as_bytes())),
                3 => {
                    let k = rng.below(11) as usize;
                    format!("addraw {} {}", num, hex(&rng.bytes(k)))
                }
                4 => {
                    let k = rng.below(4);
                    let xs: Vec<String> = (0..k).map(|_| val(&mut rng, w).to_string()).collect();
                    format!("setu {} {} {}", w, num, if xs.is_empty() { "_".into() } else { xs.join(",") })
                }
                5 => {
                    let k = rng.below(3);
                    let xs: Vec<String> = (0..k).map(|_| hex(random_string(&mut rng).as_bytes())).collect();
                    format!("sets {} {}", num, if xs.is_empty() { "_".into() } else { xs.join(",") })
                }
                6 => format!("clr {}", num),
                7 => format!("obs {}", val(&mut rng, 4)),
                8 => "getobs".to_string(),
                9 => format!("getu {} {}", w, num),
                10 => format!("firstu {} {}", w, num),
                _ => format!("gets {}", num),
            });
        }
        let num = *rng.pick(&nums);
        ops.push(format!("raw {}", num));
        ops.push(format!("getu {} {}", *rng.pick(&[1u32, 2, 4, 8]), num));
        ops.push(format!("firsts {}", num));
        acc_case(cx, &ops);
    }
}
