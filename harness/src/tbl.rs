//! Domain TBL: every table / enum conversion over its whole finite domain.
//! Validates the translator (the driver answers from the generated Lean
//! tables) and evaluates C05's direct oracle against the registry.
use crate::{guarded, hex, Ctx};
use coap_lite::{
    CoapOption, CoapRequest, CoapResponse, ContentFormat, Header, HeaderRaw, MessageClass,
    MessageType, ObserveOption, Packet, RequestType, ResponseType,
};
use std::collections::BTreeMap;
use std::convert::TryFrom;

pub struct Registry {
    pub tables: BTreeMap<String, BTreeMap<u64, String>>,
}

pub fn load_registry() -> Registry {
    let path = std::env::var("VERIF_REGISTRY").unwrap_or_else(|_| "/verif/work/registry.txt".into());
    let txt = std::fs::read_to_string(&path).expect("registry.txt");
    let mut tables: BTreeMap<String, BTreeMap<u64, String>> = BTreeMap::new();
    for l in txt.lines() {
        let f: Vec<&str> = l.split_whitespace().collect();
        if f.len() == 3 {
            tables
                .entry(f[0].to_string())
                .or_default()
                .insert(f[2].parse().unwrap(), f[1].to_string());
        }
    }
    Registry { tables }
}

pub fn header_from_byte(b: u8, code: u8) -> Header {
    let raw = HeaderRaw::try_from(&[b, code, 0, 0][..]).unwrap();
    Header::from_raw(&raw)
}

pub fn header_first_byte(h: &Header) -> u8 {
    let mut v = Vec::with_capacity(4);
    h.to_raw().serialize_into(&mut v).unwrap();
    v[0]
}

pub fn mtype(t: u64) -> MessageType {
    match t {
        0 => MessageType::Confirmable,
        1 => MessageType::NonConfirmable,
        2 => MessageType::Acknowledgement,
        _ => MessageType::Reset,
    }
}

pub fn run(cx: &mut Ctx) {
    let reg = load_registry();
    let empty = BTreeMap::new();
    let t = |n: &str| reg.tables.get(n).unwrap_or(&empty).clone();
    let (ropt, rcf, rmeth, rresp, rtyp, robs) = (
        t("options"),
        t("content_formats"),
        t("methods"),
        t("responses"),
        t("types"),
        t("observe"),
    );

    // ---- option numbers, all 65536
    for n in 0..=65535u32 {
        let n16 = n as u16;
        let o = CoapOption::from(n16);
        let name = format!("{:?}", o);
        let back = u16::from(o);
        let line = format!("TBL optof {}", n);
        cx.case(&line, &name);
        cx.case(&format!("TBL optto {}", n), &back.to_string());
        let expect = ropt
            .get(&(n as u64))
            .cloned()
            .unwrap_or_else(|| format!("Unknown({})", n));
        if name != expect {
            cx.oracle_fail("C05", &line, &format!("option {} maps to {} but the registry says {}", n, name, expect));
        }
        if back != n16 {
            cx.oracle_fail("C05", &line, &format!("option number {} -> {} -> {}", n, name, back));
        }
        if ropt.contains_key(&(n as u64)) {
            cx.nontrivial(&line);
        }
        let unk = u16::from(CoapOption::Unknown(n16));
        if n % 257 == 0 || ropt.contains_key(&(n as u64)) {
            cx.case(&format!("TBL optunk {}", n), &unk.to_string());
        }
        if unk != n16 {
            cx.oracle_fail("C05", &line, "Unknown(n) does not map back to n");
        }
    }
    cx.exhaustive.push("all 65536 option numbers".into());
    // named -> number for every registry entry must be reachable: covered above via optof/optto.
    let mut named_seen = 0;
    for (k, nm) in ropt.iter() {
        if format!("{:?}", CoapOption::from(*k as u16)) == *nm {
            named_seen += 1;
        }
    }
    cx.stat_n("options_named_matching_registry", named_seen);

    // ---- content formats, 0..65536 plus a few beyond u16
    let mut cf_named = 0u64;
    let extra: [usize; 4] = [65536, 65537, 1 << 20, usize::MAX];
    for n in (0..=65535usize).chain(extra.iter().copied()) {
        let r = ContentFormat::try_from(n);
        let line = format!("TBL cfof {}", n);
        let (name, back) = match r {
            Ok(cf) => (format!("{:?}", cf), usize::from(cf).to_string()),
            Err(_) => ("none".to_string(), "none".to_string()),
        };
        cx.case(&line, &name);
        cx.case(&format!("TBL cfto {}", n), &back);
        let expect = rcf.get(&(n as u64)).cloned().unwrap_or_else(|| "none".into());
        if name != expect {
            cx.oracle_fail("C05", &line, &format!("content-format {} maps to {} but the registry says {}", n, name, expect));
        }
        if name != "none" {
            cf_named += 1;
            cx.nontrivial(&line);
            if back != n.to_string() {
                cx.oracle_fail("C05", &line, &format!("content-format {} -> {} -> {}", n, name, back));
            }
        }
    }
    cx.exhaustive.push("all 65536 content-format ids".into());
    cx.stat_n("content_formats_named", cf_named);
    if cf_named != rcf.len() as u64 {
        cx.oracle_fail("C05", "TBL cfof *", &format!("{} named content formats but registry has {}", cf_named, rcf.len()));
    }

    // ---- observe
    for n in (0..=70000usize).chain([1usize << 24, (1usize << 24) + 1, 1usize << 32, (1usize << 32) + 1, usize::MAX - 1, usize::MAX]) {
        let r = ObserveOption::try_from(n);
        let line = format!("TBL obsof {}", n);
        let (name, back) = match r {
            Ok(o) => (format!("{:?}", o), usize::from(o).to_string()),
            Err(_) => ("none".to_string(), "none".to_string()),
        };
        cx.case(&line, &name);
        cx.case(&format!("TBL obsto {}", n), &back);
        let expect = robs.get(&(n as u64)).cloned().unwrap_or_else(|| "none".into());
        if name != expect {
            cx.oracle_fail("C05", &line, &format!("observe action {} maps to {} (registry: {})", n, name, expect));
        }
        if name != "none" && back != n.to_string() {
            cx.oracle_fail("C05", &line, "observe action does not map back");
        }
    }

    // ---- code bytes
    for b in 0..=255u8 {
        let c = MessageClass::from(b);
        let name = format!("{:?}", c);
        let back = u8::from(c);
        let line = format!("TBL clsof {}", b);
        cx.case(&line, &name);
        cx.case(&format!("TBL clsto {}", b), &back.to_string());
        let expect = if b == 0 {
            "Empty".to_string()
        } else if let Some(m) = rmeth.get(&(b as u64)) {
            format!("Request({})", m)
        } else if let Some(r) = rresp.get(&(b as u64)) {
            format!("Response({})", r)
        } else {
            format!("Reserved({})", b)
        };
        if name != expect {
            cx.oracle_fail("C05", &line, &format!("code byte {} is {} but the registry says {}", b, name, expect));
        }
        if back != b {
            cx.oracle_fail("C05", &line, &format!("code byte {} -> {} -> {}", b, name, back));
        }
        cx.nontrivial(&line);

        // text form
        let s = c.to_string();
        let line2 = format!("TBL fmt {}", b);
        cx.case(&line2, &hex(s.as_bytes()));
        let expect_s = format!("{}.{:02}", b >> 5, b & 0x1f);
        if s != expect_s {
            cx.oracle_fail("C05", &line2, &format!("code {} prints as {} instead of {}", b, s, expect_s));
        }
        // the text form does not depend on the caller's format specification (the Display impl
        // writes the two numbers with its own specs); get_code() gives the same text
        let specs: [String; 9] = [format!("{:>6}", c), format!("{:<8}", c), format!("{:+}", c), format!("{:04}", c), format!("{:^9}", c), format!("{:#}", c), format!("{:.1}", c), format!("{:08.3}", c), {
            let mut h = Header::new();
            h.code = c;
            h.get_code()
        }];
        for (k, t) in specs.iter().enumerate() {
            let lk = format!("TBL fmtspec {} {}", k, b);
            cx.case(&lk, &hex(t.as_bytes()));
            if *t != expect_s {
                cx.oracle_fail("C05", &lk, &format!("code {} prints as {:?} instead of {} under format specification #{}", b, t, expect_s, k));
            }
        }
        let line3 = format!("TBL parse {}", hex(s.as_bytes()));
        let parsed = guarded(|| {
            let mut h = Header::new();
            h.set_code(&s);
            u8::from(h.code)
        });
        cx.case(&line3, &parsed.map(|x| x.to_string()).unwrap_or("panic".into()));
        if parsed != Some(b) {
            cx.oracle_fail("C05", &line3, &format!("text {} of code {} parses to {:?}", s, b, parsed));
        }

        // is_error
        let line4 = format!("TBL iserr {}", b);
        let r = match c {
            MessageClass::Response(r) => Some(r.is_error()),
            _ => None,
        };
        cx.case(&line4, &r.map(|x| x.to_string()).unwrap_or("na".into()));
        if let Some(e) = r {
            if e != (b >= 0x80) {
                cx.oracle_fail("C05", &line4, &format!("is_error of code byte {} is {}", b, e));
            }
        }

        // accessor tables (C19 uses these too)
        let mut req: CoapRequest<u8> = CoapRequest::new();
        req.message.header.code = c;
        cx.case(&format!("TBL method {}", b), &format!("{:?}", req.get_method()));
        let mut p = Packet::new();
        p.header.set_type(MessageType::Confirmable);
        if let Some(mut resp) = CoapResponse::new(&p) {
            resp.message.header.code = c;
            cx.case(&format!("TBL status {}", b), &format!("{:?}", resp.get_status()));
        }
    }
    cx.exhaustive.push("all 256 code bytes (class, text form, is_error, method/status tables)".into());
    cx.case("TBL clsunk req", &u8::from(MessageClass::Request(RequestType::UnKnown)).to_string());
    cx.case("TBL clsunk resp", &u8::from(MessageClass::Response(ResponseType::UnKnown)).to_string());
    cx.case("TBL iserrunk", &ResponseType::UnKnown.is_error().to_string());
    if !ResponseType::UnKnown.is_error() {
        cx.oracle_fail("C05", "TBL iserrunk", "UnKnown (byte 0xFF) not reported as error");
    }
    // malformed code strings for set_code
    for s in ["", "1", "1.", ".1", "1.2.3", "8.00", "0.32", "+1.+2", "a.b", "256.1", "1.256", "-1.0", "01.005", "7.31", "1.+", " 1.02"] {
        let line = format!("TBL parse {}", hex(s.as_bytes()));
        let parsed = guarded(|| {
            let mut h = Header::new();
            h.set_code(s);
            u8::from(h.code)
        });
        cx.case(&line, &parsed.map(|x| x.to_string()).unwrap_or("panic".into()));
    }

    // ---- first header byte: type / version / tkl, setters
    for b in 0..=255u8 {
        let h = header_from_byte(b, 1);
        let ty = guarded(|| format!("{:?}", h.get_type())).unwrap_or("panic".into());
        let line = format!("TBL hdr {}", b);
        cx.case(&line, &format!("{} {} {}", ty, h.get_version(), h.get_token_length()));
        let expect_ty = rtyp.get(&(((b >> 4) & 3) as u64)).cloned().unwrap_or("?".into());
        if ty != expect_ty || h.get_version() != b >> 6 || h.get_token_length() != b & 15 {
            cx.oracle_fail("C05", &line, &format!("header byte {:#04x} decodes as type {} version {} tkl {}", b, ty, h.get_version(), h.get_token_length()));
        }
        cx.nontrivial(&line);
        for t in 0..4u64 {
            let mut h2 = h.clone();
            let r = guarded(|| {
                h2.set_type(mtype(t));
                (header_first_byte(&h2), format!("{:?}", h2.get_type()))
            });
            let line = format!("TBL settype {} {}", b, t);
            match r {
                Some((nb, nm)) => {
                    cx.case(&line, &format!("{} {}", nb, nm));
                    if nb != (b & 0xCF) | ((t as u8) << 4) || Some(&nm) != rtyp.get(&t) {
                        cx.oracle_fail("C05", &line, &format!("set_type gives byte {:#04x}, type {}", nb, nm));
                    }
                }
                None => cx.case(&line, "panic"),
            }
        }
        for v in [0u8, 1, 2, 3, 4, 5, 255] {
            let mut h2 = h.clone();
            let r = guarded(|| {
                h2.set_version(v);
                header_first_byte(&h2)
            });
            cx.case(&format!("TBL setver {} {}", b, v), &r.map(|x| x.to_string()).unwrap_or("panic".into()));
        }
        for k in [0u8, 1, 7, 8, 9, 15, 16, 255] {
            let mut h2 = h.clone();
            let r = guarded(|| {
                h2.set_token_length(k);
                header_first_byte(&h2)
            });
            cx.case(&format!("TBL settkl {} {}", b, k), &r.map(|x| x.to_string()).unwrap_or("panic".into()));
        }
    }
    cx.exhaustive.push("all 256 first header bytes x 4 types".into());

    // the HandlingError constructors: the response code each one carries (the model's error values
    // are tied to these by C11.error_codes_match_source over the regenerated constants)
    {
        use coap_lite::error::HandlingError;
        let ctors: [(&str, HandlingError); 5] = [
            ("notHandled", HandlingError::not_handled()),
            ("notFound", HandlingError::not_found()),
            ("badRequest", HandlingError::bad_request("x")),
            ("internal", HandlingError::internal("x")),
            ("methodNotSupported", HandlingError::method_not_supported()),
        ];
        for (name, e) in ctors.iter() {
            let c = e.code.map(|c| u8::from(MessageClass::Response(c)).to_string()).unwrap_or("none".into());
            cx.case(&format!("TBL errctor {}", name), &c);
            // rendering an error never fails and mentions its message
            let txt = guarded(|| format!("{}", e));
            if txt.is_none() {
                cx.oracle_fail("C11", &format!("TBL errctor {}", name), "Display of a HandlingError panicked");
            }
        }
        for b in 0..=255u8 {
            if let MessageClass::Response(rt) = MessageClass::from(b) {
                let e = HandlingError::with_code(rt, "m");
                let back = e.code.map(|c| u8::from(MessageClass::Response(c)));
                if back != Some(b) {
                    cx.oracle_fail("C11", &format!("TBL errctor with_code {}", b), &format!("with_code stores {:?}", back));
                }
            }
        }
    }
    // HeaderRaw::serialize_into: needs a capacity of at least 4 bytes, writes exactly the 4 header bytes
    for cap in [0usize, 1, 2, 3, 4, 5, 8, 64] {
        for (b0, code, mid) in [(0x40u8, 0x01u8, 0u16), (0x7f, 0x45, 0x1234), (0xff, 0xff, 0xffff), (0x00, 0x00, 0x00ff)] {
            let mut h = Header::new();
            h.set_version(b0 >> 6);
            h.set_type(match (b0 >> 4) & 3 { 0 => coap_lite::MessageType::Confirmable, 1 => coap_lite::MessageType::NonConfirmable, 2 => coap_lite::MessageType::Acknowledgement, _ => coap_lite::MessageType::Reset });
            h.set_token_length(b0 & 0x0f);
            h.code = MessageClass::from(code);
            h.message_id = mid;
            let mut v: Vec<u8> = Vec::with_capacity(cap);
            let real_cap = v.capacity();
            let r = guarded(|| h.to_raw().serialize_into(&mut v).map(|_| v.clone()));
            let line = format!("TBL hdrser {} {} {} {}", real_cap, b0, code, mid);
            match r {
                None => {
                    cx.case(&line, "panic");
                    cx.oracle_fail("C04", &line, "HeaderRaw::serialize_into panicked");
                }
                Some(Ok(bytes)) => {
                    cx.case(&line, &format!("ok {}", hex(&bytes)));
                    if real_cap < 4 || bytes != vec![b0, code, (mid >> 8) as u8, mid as u8] {
                        cx.oracle_fail("C04", &line, "header serialised into a buffer without room for it, or wrong bytes");
                    }
                }
                Some(Err(_)) => {
                    cx.case(&line, "err");
                    if real_cap >= 4 {
                        cx.oracle_fail("C04", &line, "header refused although the buffer has room for 4 bytes");
                    }
                }
            }
        }
    }

    // every code byte through the DECODER (Packet::from_bytes -> Header::from_raw): the decoded code
    // must name the byte it was decoded from, print as c.dd of that byte, and be re-encoded as that byte
    for b in 0..=255u8 {
        let line = format!("TBL deccode {}", b);
        let r = guarded(|| {
            Packet::from_bytes(&[0x40, b, 0x12, 0x34]).ok().map(|p| {
                let back = p.to_bytes().ok().map(|v| v[1]);
                (u8::from(p.header.code), p.header.get_code(), back, p.header.code == MessageClass::from(b))
            })
        });
        match r {
            Some(Some((n, txt, back, same))) => {
                cx.case(&line, &format!("{} {} {}", n, txt, back.map(|x| x.to_string()).unwrap_or("err".into())));
                if n != b || back != Some(b) || !same || txt != format!("{}.{:02}", b >> 5, b & 0x1f) {
                    cx.oracle_fail("C05", &line, &format!("code byte {} decodes to a code whose number is {}, text {}, re-encoded {:?}, equal to MessageClass::from: {}", b, n, txt, back, same));
                }
            }
            _ => {
                cx.case(&line, "fail");
                cx.oracle_fail("C05", &line, "a 4-byte message with this code byte is not decoded");
            }
        }
    }

    // constants
    // the `udp` feature selects the other MAX_SIZE constant
    cx.case(if cfg!(feature = "udp") { "TBL const maxsizeudp" } else { "TBL const maxsize" }, &Packet::MAX_SIZE.to_string());
    let d = Header::new();
    cx.case(
        "TBL const header",
        &format!("{} {} {}", header_first_byte(&d), u8::from(d.code), d.message_id),
    );
}
