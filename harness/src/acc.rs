use crate::Ctx; pub fn run(_cx: &mut Ctx) {}
