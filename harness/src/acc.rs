//! Domain ACC: convenience accessors and coap-message trait views – C19.
//!   ACC req <op;op;...>   ops on a CoapRequest (and its response message):
//!        addraw n hex | path hex | method b | status b | obsflag n | cf n | clr n
//!        getpath | getvec | raw n | getobs | getcf | getmethod | getstatus | code
//!   ACC view <pkt>        coap-message 0.2 and 0.3 read views
//!   ACC copy <pkt>        set_from_message through 0.2 and through 0.3 into a fresh Packet
//!   ACC copyinto <cl> <n:val,...> <pkt>   set_from_message (0.2 | 0.3) into a target that already holds the listed
//!                         options (and a payload): the copy appends to what is there
//!   ACC wadd <cl> <n:val,...> <code> <payload> <pkt>   write through MinimalWritableMessage (0.2 | 0.3) onto an
//!                         EXISTING message: add_option in the given (arbitrary) order, set_code, set_payload
use crate::pkt::{dump, parse_val, val_token, CodeSpec, PktSpec};
use crate::uint::utf8_ok;
use crate::{guarded, hex, Ctx, Rng};
use coap_lite::{CoapOption, CoapRequest, CoapResponse, ContentFormat, MessageClass, ObserveOption, Packet};
use std::collections::BTreeMap;
use std::convert::TryFrom;

fn min_be(mut v: u64) -> Vec<u8> {
    let mut out = vec![];
    while v > 0 {
        out.push((v & 0xff) as u8);
        v >>= 8;
    }
    out.reverse();
    out
}

pub fn req_case(cx: &mut Ctx, ops: &[String]) {
    let line = format!("ACC req {}", ops.join(";"));
    let r = guarded(|| {
        let mut req: CoapRequest<u8> = CoapRequest::new();
        let mut resp = CoapResponse::new(&Packet::new()).unwrap();
        let mut outs: Vec<String> = vec![];
        for op in ops {
            let f: Vec<&str> = op.split(' ').collect();
            match f[0] {
                "addraw" => req.message.add_option(CoapOption::from(f[1].parse::<u16>().unwrap()), parse_val(f[2])),
                "clr" => req.message.clear_option(CoapOption::from(f[1].parse::<u16>().unwrap())),
                "path" => req.set_path(std::str::from_utf8(&parse_val(f[1])).unwrap()),
                "pathsame" => {
                    // the getter's output as the setter's input
                    let p = req.get_path();
                    req.set_path(&p)
                }
                "method" => {
                    if let MessageClass::Request(m) = MessageClass::from(f[1].parse::<u8>().unwrap()) {
                        req.set_method(m)
                    }
                }
                "status" => {
                    if let MessageClass::Response(s) = MessageClass::from(f[1].parse::<u8>().unwrap()) {
                        resp.set_status(s)
                    }
                }
                "obsflag" => req.set_observe_flag(ObserveOption::try_from(f[1].parse::<usize>().unwrap()).unwrap()),
                "cf" => req.message.set_content_format(ContentFormat::try_from(f[1].parse::<usize>().unwrap()).unwrap()),
                "getpath" => outs.push(hex(req.get_path().as_bytes())),
                "getvec" => outs.push(match req.get_path_as_vec() {
                    Ok(v) => format!("[{}]", v.iter().map(|s| hex(s.as_bytes())).collect::<Vec<_>>().join(",")),
                    Err(_) => "err".into(),
                }),
                "raw" => outs.push(match req.message.get_option(CoapOption::from(f[1].parse::<u16>().unwrap())) {
                    None => "none".into(),
                    Some(l) => format!("[{}]", l.iter().map(|v| val_token(v)).collect::<Vec<_>>().join(",")),
                }),
                "getobs" => outs.push(match req.get_observe_flag() {
                    None => "none".into(),
                    Some(Ok(f)) => format!("{:?}", f),
                    Some(Err(_)) => "err".into(),
                }),
                "getcf" => outs.push(match req.message.get_content_format() {
                    None => "none".into(),
                    Some(c) => format!("{:?}", c),
                }),
                "getmethod" => outs.push(format!("{:?}", req.get_method())),
                "getstatus" => outs.push(format!("{:?}", resp.get_status())),
                "code" => outs.push(format!("{} {}", u8::from(req.message.header.code), u8::from(resp.message.header.code))),
                _ => panic!("bad op"),
            }
        }
        outs
    });
    // ---- reference: raw option multimap + code bytes
    let reg = crate::tbl::load_registry();
    let name_of = |tbl: &str, n: u64| reg.tables.get(tbl).and_then(|t| t.get(&n)).cloned();
    let mut opts: BTreeMap<u16, Vec<Vec<u8>>> = BTreeMap::new();
    let mut code_req: u8 = 1;
    let mut code_resp: u8 = 0x45;
    let mut want: Vec<String> = vec![];
    let mut comparable = true;
    for op in ops {
        let f: Vec<&str> = op.split(' ').collect();
        match f[0] {
            "addraw" => opts.entry(f[1].parse().unwrap()).or_default().push(parse_val(f[2])),
            "clr" => {
                if let Some(l) = opts.get_mut(&f[1].parse().unwrap()) {
                    l.clear()
                }
            }
            "path" | "pathsame" => {
                let s = if f[0] == "path" {
                    String::from_utf8(parse_val(f[1])).unwrap()
                } else {
                    let segs: Vec<String> = opts.get(&11).map(|l| l.iter().filter(|b| utf8_ok(b)).map(|b| String::from_utf8(b.clone()).unwrap()).collect()).unwrap_or_default();
                    segs.join("/")
                };
                let mut segs: Vec<&str> = s.split('/').collect();
                if segs[0].is_empty() {
                    segs.remove(0);
                }
                if let Some(l) = opts.get_mut(&11) {
                    l.clear()
                }
                for x in segs {
                    opts.entry(11).or_default().push(x.as_bytes().to_vec());
                }
            }
            "method" => {
                let b: u8 = f[1].parse().unwrap();
                if name_of("methods", b as u64).is_some() {
                    code_req = b
                }
            }
            "status" => {
                let b: u8 = f[1].parse().unwrap();
                if name_of("responses", b as u64).is_some() {
                    code_resp = b
                }
            }
            "obsflag" => {
                opts.insert(6, vec![min_be(f[1].parse().unwrap())]);
            }
            "cf" => {
                opts.insert(12, vec![min_be(f[1].parse().unwrap())]);
            }
            "getpath" => {
                let segs: Vec<String> = opts.get(&11).map(|l| l.iter().filter(|b| utf8_ok(b)).map(|b| String::from_utf8(b.clone()).unwrap()).collect()).unwrap_or_default();
                want.push(hex(segs.join("/").as_bytes()));
            }
            "getvec" => {
                let l = opts.get(&11).cloned().unwrap_or_default();
                if l.iter().all(|b| utf8_ok(b)) {
                    want.push(format!("[{}]", l.iter().map(|b| hex(b)).collect::<Vec<_>>().join(",")));
                } else {
                    want.push("err".into());
                }
            }
            "raw" => want.push(match opts.get(&f[1].parse().unwrap()) {
                None => "none".into(),
                Some(l) => format!("[{}]", l.iter().map(|v| val_token(v)).collect::<Vec<_>>().join(",")),
            }),
            "getobs" => want.push(match opts.get(&6).and_then(|l| l.first()) {
                None => "none".into(),
                Some(b) if b.len() > 4 => "err".into(),
                Some(b) => {
                    let v = b.iter().fold(0u64, |a, &x| (a << 8) | x as u64);
                    name_of("observe", v).unwrap_or("err".into())
                }
            }),
            "getcf" => want.push(match opts.get(&12).and_then(|l| l.first()) {
                None => "none".into(),
                Some(b) if b.len() > 2 => "none".into(),
                Some(b) => {
                    let v = b.iter().fold(0u64, |a, &x| (a << 8) | x as u64);
                    name_of("content_formats", v).unwrap_or("none".into())
                }
            }),
            "getmethod" => want.push(name_of("methods", code_req as u64).unwrap_or("UnKnown".into())),
            "getstatus" => want.push(name_of("responses", code_resp as u64).unwrap_or("UnKnown".into())),
            "code" => want.push(format!("{} {}", code_req, code_resp)),
            _ => comparable = false,
        }
    }
    match &r {
        None => {
            cx.case(&line, "panic");
            cx.oracle_fail("C19", &line, "accessor sequence panicked");
        }
        Some(outs) => {
            let s = outs.join(" / ");
            cx.case(&line, &s);
            cx.nontrivial(&line);
            if comparable && s != want.join(" / ") {
                cx.oracle_fail("C19", &line, &format!("accessors show {} but the raw-state reference gives {}", s, want.join(" / ")));
                if ops.iter().any(|o| o.starts_with("cf ") || o == "getcf") {
                    // the content-format name <-> number mapping as seen through a message (C05)
                    cx.oracle_fail("C05", &line, &format!("content format through the message accessors: {} but the registry gives {}", s, want.join(" / ")));
                }
            }
        }
    }
}

fn view02(p: &Packet) -> String {
    use coap_message::{MessageOption, ReadableMessage};
    let code: u8 = ReadableMessage::code(p).into();
    let opts: Vec<String> = ReadableMessage::options(p).map(|o| format!("{}:{}", o.number(), val_token(o.value()))).collect();
    format!("c{} o[{}] p{}", code, opts.join(","), val_token(ReadableMessage::payload(p)))
}

fn view03(p: &Packet) -> String {
    use coap_message_0_3::{MessageOption, ReadableMessage};
    let code: u8 = ReadableMessage::code(p).into();
    let opts: Vec<String> = ReadableMessage::options(p).map(|o| format!("{}:{}", o.number(), val_token(o.value()))).collect();
    format!("c{} o[{}] p{}", code, opts.join(","), val_token(ReadableMessage::payload(p)))
}

fn copy02(src: &Packet) -> Packet {
    use coap_message::MinimalWritableMessage;
    let mut d = Packet::new();
    d.set_from_message(src);
    d
}

fn copy03(src: &Packet) -> Packet {
    use coap_message_0_3::MinimalWritableMessage;
    let mut d = Packet::new();
    d.set_from_message(src).unwrap();
    d
}

pub fn view_case(cx: &mut Ctx, spec: &PktSpec, cleared: &[u16]) {
    let cl = if cleared.is_empty() { "_".to_string() } else { cleared.iter().map(|n| n.to_string()).collect::<Vec<_>>().join(",") };
    let build = || {
        let mut p = spec.build();
        for n in cleared {
            p.clear_option(CoapOption::from(*n));
        }
        p
    };
    // reference: ascending number order, per-number insertion order
    let mut so = spec.sorted_opts();
    so.retain(|(n, _)| !cleared.contains(n));
    let want = format!(
        "c{} o[{}] p{}",
        spec.code.byte(),
        so.iter().map(|(n, v)| format!("{}:{}", n, val_token(v))).collect::<Vec<_>>().join(","),
        val_token(&spec.payload)
    );
    let line = format!("ACC view {} {}", cl, spec.line());
    let r = guarded(|| {
        let p = build();
        (view02(&p), view03(&p))
    });
    match &r {
        None => cx.case(&line, "panic"),
        Some((a, b)) => {
            cx.case(&line, &format!("{} | {}", a, b));
            cx.nontrivial(&line);
            if spec.tok.len() <= 15 && (*a != want || *b != want) {
                cx.oracle_fail("C19", &line, &format!("coap-message view shows {} / {} instead of {}", a, b, want));
            }
        }
    }
    let line = format!("ACC copy {} {}", cl, spec.line());
    let r = guarded(|| {
        let p = build();
        (copy02(&p), copy03(&p))
    });
    match &r {
        None => cx.case(&line, "panic"),
        Some((a, b)) => {
            cx.case(&line, &format!("{} | {}", dump(a), dump(b)));
            for q in [a, b] {
                if view02(q) != want {
                    cx.oracle_fail("C19", &line, &format!("message copied through the generic interface shows {} instead of {}", view02(q), want));
                }
            }
        }
    }
}



/// `set_from_message` into a target that is NOT fresh: the source's options are added to the
/// target's (per-number order: target's first), code and payload are replaced
pub fn copyinto_case(cx: &mut Ctx, spec: &PktSpec, cleared: &[u16], pre: &[(u16, Vec<u8>)]) {
    let cl = if cleared.is_empty() { "_".to_string() } else { cleared.iter().map(|n| n.to_string()).collect::<Vec<_>>().join(",") };
    let pt = if pre.is_empty() { "_".to_string() } else { pre.iter().map(|(n, v)| format!("{}:{}", n, val_token(v))).collect::<Vec<_>>().join(",") };
    let line = format!("ACC copyinto {} {} {}", cl, pt, spec.line());
    let build = || {
        let mut p = spec.build();
        for n in cleared {
            p.clear_option(CoapOption::from(*n));
        }
        p
    };
    let target = || {
        let mut d = Packet::new();
        for (n, v) in pre {
            d.add_option(CoapOption::from(*n), v.clone());
        }
        d.payload = vec![9, 9, 9];
        d
    };
    let r = guarded(|| {
        let src = build();
        let mut a = target();
        {
            use coap_message::MinimalWritableMessage;
            a.set_from_message(&src);
        }
        let mut b = target();
        {
            use coap_message_0_3::MinimalWritableMessage;
            b.set_from_message(&src).unwrap();
        }
        // reference through the native calls
        let mut n = target();
        n.header.code = MessageClass::from(u8::from(src.header.code));
        for (num, vals) in src.options() {
            for v in vals.iter() {
                n.add_option(CoapOption::from(*num), v.clone());
            }
        }
        n.payload = src.payload.clone();
        (a, b, n)
    });
    match &r {
        None => cx.case(&line, "panic"),
        Some((a, b, n)) => {
            cx.case(&line, &format!("{} | {}", dump(a), dump(b)));
            cx.nontrivial(&line);
            if spec.tok.len() <= 15 && (dump(a) != dump(n) || dump(b) != dump(n)) {
                cx.oracle_fail("C19", &line, &format!("copied through the generic interface into a non-empty target: {} / {}, through the native calls: {}", dump(a), dump(b), dump(n)));
            }
        }
    }
}

/// writes through the generic interface onto a message that already has content: options added in
/// any order (Packet is seek-writable), code and payload set; must equal the native calls
pub fn wadd_case(cx: &mut Ctx, spec: &PktSpec, cleared: &[u16], adds: &[(u16, Vec<u8>)], code: u8, payload: &[u8]) {
    let cl = if cleared.is_empty() { "_".to_string() } else { cleared.iter().map(|n| n.to_string()).collect::<Vec<_>>().join(",") };
    let at = if adds.is_empty() { "_".to_string() } else { adds.iter().map(|(n, v)| format!("{}:{}", n, val_token(v))).collect::<Vec<_>>().join(",") };
    let line = format!("ACC wadd {} {} {} {} {}", cl, at, code, val_token(payload), spec.line());
    let build = || {
        let mut p = spec.build();
        for n in cleared {
            p.clear_option(CoapOption::from(*n));
        }
        p
    };
    let r = guarded(|| {
        let mut a = build();
        {
            use coap_message::MinimalWritableMessage;
            for (n, v) in adds {
                MinimalWritableMessage::add_option(&mut a, CoapOption::from(*n), v);
            }
            MinimalWritableMessage::set_code(&mut a, MessageClass::from(code));
            MinimalWritableMessage::set_payload(&mut a, payload);
        }
        let mut b = build();
        {
            use coap_message_0_3::MinimalWritableMessage;
            for (n, v) in adds {
                MinimalWritableMessage::add_option(&mut b, CoapOption::from(*n), v).unwrap();
            }
            MinimalWritableMessage::set_code(&mut b, MessageClass::from(code));
            MinimalWritableMessage::set_payload(&mut b, payload).unwrap();
        }
        let mut native = build();
        for (n, v) in adds {
            native.add_option(CoapOption::from(*n), v.clone());
        }
        native.header.code = MessageClass::from(code);
        native.payload = payload.to_vec();
        (a, b, native)
    });
    match &r {
        None => cx.case(&line, "panic"),
        Some((a, b, native)) => {
            cx.case(&line, &format!("{} | {}", dump(a), dump(b)));
            cx.nontrivial(&line);
            if spec.tok.len() <= 15 && (dump(a) != dump(native) || dump(b) != dump(native)) {
                cx.oracle_fail("C19", &line, &format!("written through the generic interface: {} / {}, through the native calls: {}", dump(a), dump(b), dump(native)));
            }
        }
    }
}

/// in-place writes through `MutableWritableMessage` (coap-message 0.2 and 0.3):
/// mutate_options (xor every byte i of a value of option n with (n + i) as u8 ^ x),
/// payload_mut_with_len(len) (xor with x), truncate(t), and – 0.2 only – payload_mut (+1)
fn mut02(p: &mut Packet, x: u8, len: usize, t: usize) -> String {
    use coap_message::MutableWritableMessage;
    let mut trace: Vec<String> = vec![];
    p.mutate_options(|num, v| {
        let n: u16 = num.into();
        trace.push(format!("{}:{}", n, v.len()));
        for (i, b) in v.iter_mut().enumerate() {
            *b ^= (n as u8).wrapping_add(i as u8) ^ x;
        }
    });
    for b in p.payload_mut_with_len(len).iter_mut() {
        *b ^= x;
    }
    p.truncate(t);
    for b in p.payload_mut().iter_mut() {
        *b = b.wrapping_add(1);
    }
    format!("T[{}] {} {}", trace.join(","), dump(p), if p.available_space() == usize::MAX { "Sok" } else { "Sx" })
}

fn mut03(p: &mut Packet, x: u8, len: usize, t: usize) -> String {
    use coap_message_0_3::MutableWritableMessage;
    let mut trace: Vec<String> = vec![];
    p.mutate_options(|num, v| {
        let n: u16 = num.into();
        trace.push(format!("{}:{}", n, v.len()));
        for (i, b) in v.iter_mut().enumerate() {
            *b ^= (n as u8).wrapping_add(i as u8) ^ x;
        }
    });
    for b in p.payload_mut_with_len(len).unwrap().iter_mut() {
        *b ^= x;
    }
    p.truncate(t).unwrap();
    format!("T[{}] {} {}", trace.join(","), dump(p), if p.available_space() == usize::MAX { "Sok" } else { "Sx" })
}

pub fn mut_case(cx: &mut Ctx, spec: &PktSpec, cleared: &[u16], x: u8, len: usize, t: usize) {
    let cl = if cleared.is_empty() { "_".to_string() } else { cleared.iter().map(|n| n.to_string()).collect::<Vec<_>>().join(",") };
    let build = || {
        let mut p = spec.build();
        for n in cleared {
            p.clear_option(CoapOption::from(*n));
        }
        p
    };
    let line = format!("ACC mut {} {} {} {} {}", cl, x, len, t, spec.line());
    let r = guarded(|| {
        let (mut a, mut b) = (build(), build());
        let (sa, sb) = (mut02(&mut a, x, len, t), mut03(&mut b, x, len, t));
        (sa, sb, a, b)
    });
    match &r {
        None => {
            cx.case(&line, "panic");
            if spec.tok.len() <= 15 {
                cx.oracle_fail("C19", &line, "a MutableWritableMessage method panicked");
            }
        }
        Some((sa, sb, a, b)) => {
            cx.case(&line, &format!("{} | {}", sa, sb));
            cx.nontrivial(&line);
            // reference: options in ascending number / insertion order, each value rewritten in place
            let mut so = spec.sorted_opts();
            so.retain(|(n, _)| !cleared.contains(n));
            let want_trace = format!("T[{}]", so.iter().map(|(n, v)| format!("{}:{}", n, v.len())).collect::<Vec<_>>().join(","));
            let want_opts: Vec<(u16, Vec<u8>)> = so.iter().map(|(n, v)| (*n, v.iter().enumerate().map(|(i, b)| b ^ (*n as u8).wrapping_add(i as u8) ^ x).collect())).collect();
            let mut pay: Vec<u8> = spec.payload.clone();
            pay.resize(len, 0);
            for b in pay.iter_mut() {
                *b ^= x;
            }
            pay.truncate(t);
            let pay02: Vec<u8> = pay.iter().map(|b| b.wrapping_add(1)).collect();
            for (which, s, q, wp) in [("0.2", sa, a, &pay02), ("0.3", sb, b, &pay)] {
                let mut got: Vec<(u16, Vec<u8>)> = vec![];
                for (n, l) in q.options() {
                    for v in l.iter() {
                        got.push((*n, v.clone()));
                    }
                }
                if !s.starts_with(&format!("{} ", want_trace)) {
                    cx.oracle_fail("C19", &line, &format!("coap-message {} mutate_options visited {} instead of {}", which, s.split(' ').next().unwrap_or(""), want_trace));
                } else if got != want_opts {
                    cx.oracle_fail("C19", &line, &format!("coap-message {} mutate_options: raw options afterwards are not the values written through the callback", which));
                } else if &q.payload != wp {
                    cx.oracle_fail("C19", &line, &format!("coap-message {} payload_mut_with_len({}) / truncate({}): payload {} instead of {}", which, len, t, hex(&q.payload), hex(wp)));
                } else if !s.ends_with("Sok") {
                    cx.oracle_fail("C19", &line, "available_space is not usize::MAX");
                } else if u8::from(q.header.code) != spec.code.byte() || q.header.message_id != spec.mid {
                    cx.oracle_fail("C19", &line, "in-place writes changed the code / message id");
                }
            }
        }
    }
}

fn all_strings(alpha: &[&str], maxlen: usize, f: &mut dyn FnMut(&str)) {
    fn rec(alpha: &[&str], cur: &mut String, left: usize, f: &mut dyn FnMut(&str)) {
        f(cur);
        if left == 0 {
            return;
        }
        for a in alpha {
            let l = cur.len();
            cur.push_str(a);
            rec(alpha, cur, left - 1, f);
            cur.truncate(l);
        }
    }
    rec(alpha, &mut String::new(), maxlen, f);
}

pub fn run(cx: &mut Ctx) {
    let thorough = cx.tier_thorough;
    let mut rng = Rng(cx.seed ^ 0x414343);
    // every named and unnamed code byte through set_method / set_status
    for b in 0..=255u8 {
        req_case(cx, &[format!("method {}", b), "getmethod".into(), "code".into()]);
        req_case(cx, &[format!("status {}", b), "getstatus".into(), "code".into()]);
    }
    cx.exhaustive.push("set/get of every named method and status (all 256 code bytes tried)".into());
    // content formats: every id 0..65535 that is named (plus set twice, set after raw add)
    let reg = crate::tbl::load_registry();
    let cfs: Vec<u64> = reg.tables.get("content_formats").map(|t| t.keys().cloned().collect()).unwrap_or_default();
    for &c in &cfs {
        req_case(cx, &[format!("cf {}", c), "getcf".into(), "raw 12".into()]);
        let other = *rng.pick(&cfs);
        req_case(cx, &[format!("cf {}", other), format!("cf {}", c), "getcf".into(), "raw 12".into()]);
        let k = rng.below(4) as usize;
        req_case(cx, &[format!("addraw 12 {}", hex(&rng.bytes(k))), format!("cf {}", c), "getcf".into(), "raw 12".into()]);
    }
    // every ordered pair of named formats set one after the other on the same message (a wider id
    // replaced by a narrower one and vice versa), and every id in its one- and two-byte wire form
    for (i, &a) in cfs.iter().enumerate() {
        for (j, &b) in cfs.iter().enumerate() {
            if (i + j) % 3 == 0 || a > 255 && b <= 255 {
                req_case(cx, &[format!("cf {}", a), format!("cf {}", b), "getcf".into(), "raw 12".into()]);
            }
        }
    }
    for id in 0..=65535u32 {
        if id < 512 || cfs.contains(&(id as u64)) || id % 257 == 0 {
            req_case(cx, &[format!("addraw 12 {}", hex(&[(id >> 8) as u8, id as u8])), "getcf".into()]);
            if id < 256 {
                req_case(cx, &[format!("addraw 12 {}", hex(&[id as u8])), "getcf".into()]);
                req_case(cx, &[format!("addraw 12 {}", hex(&[0, 0, id as u8])), "getcf".into()]);
            }
        }
    }
    // raw content-format bytes through the getter
    for n in 0..=3usize {
        for _ in 0..200 {
            req_case(cx, &[format!("addraw 12 {}", hex(&rng.bytes(n))), "getcf".into()]);
        }
    }
    cx.exhaustive.push("every named content format: set, set twice, set after raw add".into());
    // observe flag
    for f in 0..2 {
        req_case(cx, &[format!("obsflag {}", f), "getobs".into(), "raw 6".into()]);
        req_case(cx, &[format!("addraw 6 {}", hex(&rng.bytes(3))), format!("obsflag {}", f), "getobs".into(), "raw 6".into()]);
        req_case(cx, &[format!("obsflag {}", 1 - f), format!("obsflag {}", f), "getobs".into(), "raw 6".into()]);
    }
    req_case(cx, &["getobs".into()]);
    for n in 0..=6usize {
        for a in [0u8, 1, 2, 3, 0xff] {
            let mut v = vec![0u8; n];
            if n > 0 {
                v[n - 1] = a;
            }
            req_case(cx, &[format!("addraw 6 {}", hex(&v)), "getobs".into()]);
            let mut v2 = rng.bytes(n);
            if n > 0 {
                v2[0] = a;
            }
            req_case(cx, &[format!("addraw 6 {}", hex(&v2)), "getobs".into()]);
        }
    }
    // Observe values of 3 and 4 bytes whose low 16 bits look like an action (a narrowing
    // cast would alias them to Register/Deregister), and all short strings over {0,1,2,255}
    for hi in [1u8, 2, 0x80, 0xab, 0xff] {
        for lo in [0u8, 1, 2] {
            for v in [vec![hi, 0, lo], vec![hi, 0, 0, lo], vec![0, hi, 0, lo], vec![hi, 1, 0, lo]] {
                req_case(cx, &[format!("addraw 6 {}", hex(&v)), "getobs".into(), "raw 6".into()]);
            }
        }
    }
    let small = [0u8, 1, 2, 255];
    for a in small {
        for b in small {
            for c in small {
                req_case(cx, &[format!("addraw 6 {}", hex(&[a, b, c])), "getobs".into()]);
                for d in small {
                    req_case(cx, &[format!("addraw 6 {}", hex(&[a, b, c, d])), "getobs".into()]);
                }
            }
        }
    }
    // paths: exhaustive over {'/', 'a', '.', two-byte char} to length 6 (5 quick), whatever was there before
    // ('%', '2', 'F' so that percent-escapes such as %2F occur: Uri-Path values are not percent-decoded)
    let alpha = ["/", "a", ".", "\u{e9}", "%", "2", "F"];
    let maxlen = if thorough { 6 } else { 5 };
    let mut paths: Vec<String> = vec![];
    all_strings(&alpha, maxlen, &mut |s| paths.push(s.to_string()));
    for (i, s) in paths.iter().enumerate() {
        let mut ops: Vec<String> = vec![];
        match i % 4 {
            1 => ops.push("addraw 11 78".into()),
            2 => {
                ops.push("addraw 11 ff".into());
                ops.push("addraw 11 79".into());
            }
            3 => ops.push(format!("path {}", hex(paths[(i * 7919) % paths.len()].as_bytes()))),
            _ => {}
        }
        ops.push(format!("path {}", hex(s.as_bytes())));
        ops.push("getpath".into());
        ops.push("getvec".into());
        ops.push("raw 11".into());
        req_case(cx, &ops);
    }
    cx.exhaustive.push(format!("every path string over {{/, a, ., e-acute}} up to length {}", maxlen));
    let n = if thorough { 20000 } else { 4000 };
    for _ in 0..n {
        let len = rng.below(12) as usize;
        let mut s = String::new();
        for _ in 0..len {
            s.push(*rng.pick(&['/', '/', 'a', 'b', '.', '%', ' ', '\u{e9}', '\u{20ac}', '\u{1f601}', '?', '#']));
            if rng.chance(1, 6) {
                let toks: [&str; 9] = ["%2F", "%2f", "%25", "%2E%2E", "..", "+", "%00", "\u{feff}", "%C3%A9"];
                s.push_str(*rng.pick(&toks));
            }
        }
        req_case(cx, &[format!("path {}", hex(s.as_bytes())), "getpath".into(), "getvec".into(), "raw 11".into()]);
    }
    // the getter's output fed back into the setter, over prior Uri-Path states whose rendering is
    // not injective (separators inside a segment, undecodable segments, empty segments)
    {
        let priors: Vec<Vec<Vec<u8>>> = vec![
            vec![], vec![vec![]], vec![b"a".to_vec()], vec![b"a/b".to_vec()], vec![b"a".to_vec(), vec![0xff, 0xfe], b"b".to_vec()],
            vec![vec![], b"a".to_vec()], vec![vec![], vec![], b"a".to_vec()], vec![b"a".to_vec(), vec![]], vec![vec![0xff]], vec![b"/".to_vec()],
            vec![b"a".to_vec(), b"b".to_vec()], vec![b"a".to_vec(), b"/".to_vec(), b"b".to_vec()], vec![vec![0xc3], b"x".to_vec(), vec![0x80]],
        ];
        for pr in &priors {
            for via_setter in [false, true] {
                let mut ops: Vec<String> = vec![];
                if via_setter {
                    let txt: Vec<String> = pr.iter().filter(|b| utf8_ok(b)).map(|b| String::from_utf8(b.clone()).unwrap()).collect();
                    ops.push(format!("path {}", hex(txt.join("/").as_bytes())));
                } else {
                    for sg in pr {
                        ops.push(format!("addraw 11 {}", hex(sg)));
                    }
                }
                for tail in ["pathsame", "raw 11", "getvec", "getpath", "pathsame", "raw 11", "getpath"] {
                    ops.push(tail.into());
                }
                req_case(cx, &ops);
            }
        }
    }
    // non-UTF-8 raw segments through the getters
    for _ in 0..500 {
        let k = rng.range(1, 3) as usize;
        let mut ops: Vec<String> = vec![];
        for _ in 0..k {
            let n = rng.below(4) as usize;
            let mut v = rng.bytes(n);
            if rng.chance(1, 2) {
                v = b"ok".to_vec();
            }
            ops.push(format!("addraw 11 {}", hex(&v)));
        }
        ops.push("getpath".into());
        ops.push("getvec".into());
        req_case(cx, &ops);
    }
    // coap-message views / copies on random messages
    let nv = if thorough { 20000 } else { 4000 };
    for _ in 0..nv {
        let tkl = rng.below(9) as usize;
        let nopts = rng.below(6) as usize;
        let mut opts = vec![];
        for _ in 0..nopts {
            let num = *rng.pick(&[1u16, 4, 6, 11, 11, 12, 15, 23, 27, 60, 258, 300, 65535, 0]);
            let k = rng.below(5) as usize;
            opts.push((num, rng.bytes(k)));
        }
        let cleared: Vec<u16> = if rng.chance(1, 4) && !opts.is_empty() { vec![opts[0].0] } else { vec![] };
        let code = match rng.below(6) {
            0 => CodeSpec::Byte(rng.below(256) as u8),
            1 => CodeSpec::Reserved(rng.below(256) as u8),
            2 => CodeSpec::UnkReq,
            3 => CodeSpec::UnkResp,
            _ => CodeSpec::Byte(*rng.pick(&[1u8, 2, 0x45, 0x84, 0])),
        };
        let pl = rng.below(6) as usize;
        let spec = PktSpec { vtt: 0x40 | tkl as u8, code, mid: rng.below(65536) as u16, tok: rng.bytes(tkl), opts, payload: rng.bytes(pl) };
        view_case(cx, &spec, &cleared);
        // … and written to through the generic interface: options added in arbitrary order onto the
        // existing content (numbers already present, numbers below / between / above the present ones)
        let nadd = rng.below(4) as usize;
        let mut adds = vec![];
        for _ in 0..nadd {
            let num = *rng.pick(&[1u16, 4, 6, 11, 11, 12, 15, 23, 27, 60, 258, 300, 65535, 0]);
            let k = rng.below(4) as usize;
            adds.push((num, rng.bytes(k)));
        }
        let pl2 = rng.below(4) as usize;
        let pay2 = rng.bytes(pl2);
        wadd_case(cx, &spec, &cleared, &adds, *rng.pick(&[0x45u8, 1, 0, 0x84]), &pay2);
        copyinto_case(cx, &spec, &cleared, &adds);
    }
    // directed: a Uri-Path segment added through the generic interface to a request that already has a
    // path and a higher-numbered option; an option repeated below the highest present number
    for ver_opts in [vec![(11u16, b"sensors".to_vec()), (11, b"temp".to_vec()), (12, vec![50])], vec![(4, vec![1]), (11, b"a".to_vec()), (15, b"q".to_vec()), (60, vec![9])]] {
        let spec = PktSpec { vtt: 0x41, code: CodeSpec::Byte(1), mid: 7, tok: vec![1], opts: ver_opts.clone(), payload: vec![] };
        for adds in [vec![(11u16, b"now".to_vec())], vec![(4, vec![2])], vec![(15, b"r".to_vec()), (11, b"z".to_vec())], vec![(12, vec![60])], vec![(1, vec![]), (65535, vec![1]), (11, vec![])]] {
            wadd_case(cx, &spec, &[], &adds, 2, b"p");
            wadd_case(cx, &spec, &[12], &adds, 2, b"");
            copyinto_case(cx, &spec, &[], &adds);
        }
    }
    // in-place writes through MutableWritableMessage (both trait versions)
    let nm = if thorough { 20000 } else { 4000 };
    for i in 0..nm {
        let tkl = rng.below(9) as usize;
        let nopts = rng.below(6) as usize;
        let mut opts = vec![];
        for _ in 0..nopts {
            let num = *rng.pick(&[1u16, 4, 6, 11, 11, 12, 15, 23, 27, 60, 258, 300, 65535, 0]);
            let k = *rng.pick(&[0usize, 0, 1, 2, 3, 4, 12, 13, 300]);
            opts.push((num, rng.bytes(k)));
        }
        let cleared: Vec<u16> = if rng.chance(1, 4) && !opts.is_empty() { vec![opts[rng.below(opts.len() as u64) as usize].0] } else { vec![] };
        let pl = *rng.pick(&[0usize, 1, 2, 5, 16, 40]);
        let spec = PktSpec { vtt: 0x40 | tkl as u8, code: CodeSpec::Byte(*rng.pick(&[1u8, 2, 0x45, 0x84, 0])), mid: rng.below(65536) as u16, tok: rng.bytes(tkl), opts, payload: rng.bytes(pl) };
        let len = match i % 4 {
            0 => pl,
            1 => rng.below(pl as u64 + 1) as usize,
            2 => pl + rng.below(20) as usize,
            _ => *rng.pick(&[0usize, 1, 255, 256, 1000]),
        };
        let t = match rng.below(4) {
            0 => len,
            1 => rng.below(len as u64 + 1) as usize,
            2 => len + 1 + rng.below(5) as usize,
            _ => 0,
        };
        mut_case(cx, &spec, &cleared, rng.below(256) as u8, len, t);
    }
}
