//! Domain LF: RFC 6690 link-format parser and writer – C16, C17, C18.
//!   LF parse <hex>                       -> items: L<off>:<hex>[A<k>=<v>~<unq>~<cow>~<q>,...] ; E
//!   LF cow <hex>                         -> <to_string hex> <to_cow hex> <is_quoted>
//!   LF write <nl> <doc>                  -> <ok|err> <calls> <sink hex>
//!   LF writef <nl> <k> <once|persist> <doc> -> same
//!   LF writeo <nl> <k|-> <once|persist> <flags> <doc> -> same; <flags>: per link '-' | '0' | '1' =
//!                                           set_add_newlines(false/true) is called before that link, one more
//!                                           char for a call before the final finish()
//!   LF rt <nl> <doc>                     -> write, then parse the output (same format as parse)
//! <doc> = links joined by '|'; link = <targethex>(;<m>:<keyhex>:<val>)*, m = a|q (val hex) or u|h (val decimal); `_` = no links
use crate::{guarded, hex, unhex, Ctx, Rng};
use coap_lite::link_format::{LinkFormatParser, LinkFormatWrite, Unquote};
use std::fmt::Write;

#[derive(Clone, Debug)]
pub enum AttrSpec {
    Plain(String, String),
    Quoted(String, String),
    U32(String, u32),
    U16(String, u16),
}

pub type Doc = Vec<(String, Vec<AttrSpec>)>;

fn doc_token(d: &Doc) -> String {
    if d.is_empty() {
        return "_".into();
    }
    d.iter()
        .map(|(t, attrs)| {
            let mut s = hex(t.as_bytes());
            for a in attrs {
                s.push(';');
                s.push_str(&match a {
                    AttrSpec::Plain(k, v) => format!("a:{}:{}", hex(k.as_bytes()), hex(v.as_bytes())),
                    AttrSpec::Quoted(k, v) => format!("q:{}:{}", hex(k.as_bytes()), hex(v.as_bytes())),
                    AttrSpec::U32(k, n) => format!("u:{}:{}", hex(k.as_bytes()), n),
                    AttrSpec::U16(k, n) => format!("h:{}:{}", hex(k.as_bytes()), n),
                });
            }
            s
        })
        .collect::<Vec<_>>()
        .join("|")
}

/// sink that logs every call and fails according to a schedule
struct FaultSink {
    buf: String,
    calls: usize,
    fail_at: Option<usize>,
    persist: bool,
    wrote_after_failure: bool,
    failed: bool,
}

impl FaultSink {
    fn new(fail_at: Option<usize>, persist: bool) -> Self {
        FaultSink { buf: String::new(), calls: 0, fail_at, persist, wrote_after_failure: false, failed: false }
    }
    fn call(&mut self, s: &str) -> std::fmt::Result {
        let k = self.calls;
        self.calls += 1;
        let fail = match self.fail_at {
            Some(f) => k == f || (self.persist && k > f),
            None => false,
        };
        if fail {
            self.failed = true;
            Err(std::fmt::Error)
        } else {
            if self.failed {
                self.wrote_after_failure = true;
            }
            self.buf.push_str(s);
            Ok(())
        }
    }
}

impl Write for FaultSink {
    fn write_str(&mut self, s: &str) -> std::fmt::Result {
        self.call(s)
    }
    fn write_char(&mut self, c: char) -> std::fmt::Result {
        let mut b = [0u8; 4];
        self.call(c.encode_utf8(&mut b))
    }
}

fn write_doc(d: &Doc, nl: bool, sink: &mut FaultSink) -> bool {
    write_doc_mask(d, nl, sink, 0)
}

/// bit i of `mask` set: the attribute writer of link i is dropped without calling its (optional) finish()
fn write_doc_mask(d: &Doc, nl: bool, sink: &mut FaultSink, mask: u64) -> bool {
    let mut w = LinkFormatWrite::new(sink);
    w.set_add_newlines(nl);
    let mut inner_ok = true;
    for (i, (t, attrs)) in d.iter().enumerate() {
        let mut aw = w.link(t);
        for a in attrs {
            aw = match a {
                AttrSpec::Plain(k, v) => aw.attr(k, v),
                AttrSpec::Quoted(k, v) => aw.attr_quoted(k, v),
                AttrSpec::U32(k, n) => aw.attr_u32(k, *n),
                AttrSpec::U16(k, n) => aw.attr_u16(k, *n),
            };
        }
        if mask >> (i % 64) & 1 == 1 {
            drop(aw);
        } else {
            inner_ok = aw.finish().is_ok();
        }
    }
    let fin = w.finish().is_ok();
    // the per-link finish and the final finish report the same latched error
    fin && (d.is_empty() || inner_ok)
}

/// what the sink holds when it never fails
pub fn fault_free(d: &Doc, nl: bool) -> String {
    let mut sink = FaultSink::new(None, false);
    let _ = guarded(|| write_doc(d, nl, &mut sink));
    sink.buf
}

fn off(input: &str, s: &str) -> String {
    if s.is_empty() {
        "-".to_string()
    } else {
        (s.as_ptr() as usize - input.as_ptr() as usize).to_string()
    }
}

struct ParsedLink {
    target: String,
    attrs: Vec<(String, String)>, // key, unquoted value
}

/// run all three iterators over `input`; returns printable result + structured content; None on panic
fn parse_all(cx: &mut Ctx, line: &str, input: &str, oracle: bool) -> Option<(String, Vec<ParsedLink>, bool)> {
    let r = guarded(|| {
        let mut out: Vec<String> = vec![];
        let mut links: Vec<ParsedLink> = vec![];
        let mut problems: Vec<String> = vec![];
        let mut saw_err = false;
        let mut last_off: usize = 0;
        let base = input.as_ptr() as usize;
        let end = base + input.len();
        let mut check = |s: &str, what: &str, problems: &mut Vec<String>, last_off: &mut usize| {
            if s.is_empty() {
                return;
            }
            let p = s.as_ptr() as usize;
            if p < base || p + s.len() > end {
                problems.push(format!("{} is not a substring of the input", what));
            } else {
                if p - base < *last_off {
                    problems.push(format!("{} at offset {} comes before an earlier item at {}", what, p - base, *last_off));
                }
                *last_off = p - base;
            }
        };
        for item in LinkFormatParser::new(input) {
            if saw_err {
                problems.push("an item was yielded after an error".into());
            }
            match item {
                Err(_) => {
                    out.push("E".into());
                    saw_err = true;
                }
                Ok((target, attrs)) => {
                    check(target, "link target", &mut problems, &mut last_off);
                    let mut a_out = vec![];
                    let mut pl = ParsedLink { target: target.to_string(), attrs: vec![] };
                    for (k, v) in attrs {
                        check(k, "attribute key", &mut problems, &mut last_off);
                        let raw = v.clone().into_raw_str();
                        check(raw, "attribute value", &mut problems, &mut last_off);
                        let unq: String = v.clone().collect();
                        let disp = v.to_string();
                        let cow = v.to_cow();
                        let cow2: std::borrow::Cow<str> = std::borrow::Cow::from(v.clone());
                        if cow2 != unq {
                            problems.push(format!("Cow::from(value) gives {:?} but character-by-character unquoting gives {:?}", cow2, unq));
                        }
                        if unq != disp {
                            problems.push("Display and iterator disagree".into());
                        }
                        if cow != unq {
                            problems.push(format!("to_cow gives {:?} but character-by-character unquoting gives {:?}", cow, unq));
                        }
                        a_out.push(format!(
                            "A{}:{}={}:{}~{}~{}~{}",
                            off(input, k),
                            hex(k.as_bytes()),
                            off(input, raw),
                            hex(raw.as_bytes()),
                            hex(unq.as_bytes()),
                            hex(cow.as_bytes()),
                            v.is_quoted() as u8
                        ));
                        pl.attrs.push((k.to_string(), unq));
                    }
                    out.push(format!("L{}:{}[{}]", off(input, target), hex(target.as_bytes()), a_out.join(",")));
                    links.push(pl);
                }
            }
        }
        (out.join(" ; "), links, problems, saw_err)
    });
    match r {
        None => {
            if oracle {
                cx.oracle_fail("C17", line, "link-format parsing panicked");
            }
            None
        }
        Some((s, links, problems, saw_err)) => {
            if oracle {
                for p in problems {
                    cx.oracle_fail("C17", line, &p);
                }
            }
            Some((s, links, saw_err))
        }
    }
}

pub fn case_parse(cx: &mut Ctx, input: &str) {
    let line = format!("LF parse {}", hex(input.as_bytes()));
    match parse_all(cx, &line, input, true) {
        None => cx.case(&line, "panic"),
        Some((s, links, _)) => {
            cx.case(&line, &s);
            if !links.is_empty() {
                cx.nontrivial(&line);
            }
            cx.stat(match links.len() {
                0 => "parse_links_0",
                1 => "parse_links_1",
                _ => "parse_links_2plus",
            });
        }
    }
}

/// the iterator after `k` calls of `next()`: to_cow / Cow::from / to_string / collect must all be
/// what is left of the character-by-character form
pub fn case_cowk(cx: &mut Ctx, k: usize, s: &str) {
    let line = format!("LF cowk {} {}", k, hex(s.as_bytes()));
    let r = guarded(|| {
        let full: String = Unquote::new(s).collect();
        let mut u = Unquote::new(s);
        for _ in 0..k {
            let _ = u.next();
        }
        let a = u.to_string();
        let b = u.to_cow().to_string();
        let b2 = std::borrow::Cow::<str>::from(u.clone()).to_string();
        let c: String = u.clone().collect();
        (full, a, b, b2, c, u.is_quoted())
    });
    match r {
        None => {
            cx.case(&line, "panic");
            cx.oracle_fail("C17", &line, "unquoting panicked");
        }
        Some((full, a, b, b2, c, q)) => {
            cx.case(&line, &format!("{} {} {}", hex(a.as_bytes()), hex(b.as_bytes()), q as u8));
            cx.nontrivial(&line);
            let want: String = full.chars().skip(k).collect();
            if a != want || c != want {
                cx.oracle_fail("C17", &line, &format!("after {} next() calls the iterator still yields {:?} / {:?} instead of {:?}", k, a, c, want));
            } else if b != want || b2 != want {
                cx.oracle_fail("C17", &line, &format!("after {} next() calls to_cow gives {:?} (Cow::from {:?}) but the iterator still yields {:?}", k, b, b2, want));
            }
        }
    }
}

pub fn case_cow(cx: &mut Ctx, s: &str) {
    let line = format!("LF cow {}", hex(s.as_bytes()));
    let r = guarded(|| {
        let u = Unquote::new(s);
        let a = u.to_string();
        let b = u.to_cow().to_string();
        let b2 = std::borrow::Cow::<str>::from(u.clone()).to_string();
        assert!(b2 == b, "Cow::from and to_cow disagree");
        let c: String = u.clone().collect();
        (a, b, c, u.is_quoted())
    });
    match r {
        None => {
            cx.case(&line, "panic");
            cx.oracle_fail("C17", &line, "unquoting panicked");
        }
        Some((a, b, c, q)) => {
            cx.case(&line, &format!("{} {} {}", hex(a.as_bytes()), hex(b.as_bytes()), q as u8));
            if a != b || a != c {
                cx.oracle_fail("C17", &line, &format!("to_cow gives {:?} but character-by-character unquoting gives {:?}", b, a));
            }
            if q {
                cx.nontrivial(&line);
            }
        }
    }
}

fn render(a: &AttrSpec) -> (String, String) {
    match a {
        AttrSpec::Plain(k, v) | AttrSpec::Quoted(k, v) => (k.clone(), v.clone()),
        AttrSpec::U32(k, n) => (k.clone(), n.to_string()),
        AttrSpec::U16(k, n) => (k.clone(), n.to_string()),
    }
}

fn doc_wf(d: &Doc) -> bool {
    d.iter().all(|(t, attrs)| {
        !t.contains('>')
            && attrs.iter().all(|a| {
                let (k, _) = render(a);
                !k.is_empty() && !k.chars().any(|c| c == ';' || c == ',' || c == '=' || c == '"' || c.is_whitespace())
            })
    })
}

/// attribute writers dropped without finish(): the document written is the same
pub fn case_writenf(cx: &mut Ctx, d: &Doc, nl: bool, mask: u64) {
    let line = format!("LF writenf {} {} {}", nl as u8, mask, doc_token(d));
    let full = fault_free(d, nl);
    let r = guarded(|| {
        let mut sink = FaultSink::new(None, false);
        let ok = write_doc_mask(d, nl, &mut sink, mask);
        (ok, sink.calls, sink.buf)
    });
    match r {
        None => {
            cx.case(&line, "panic");
            cx.oracle_fail("C16", &line, "writer panicked");
        }
        Some((ok, calls, buf)) => {
            cx.case(&line, &format!("{} {} {}", if ok { "ok" } else { "err" }, calls, hex(buf.as_bytes())));
            cx.nontrivial(&line);
            if buf != full {
                cx.oracle_fail("C16", &line, &format!("with attribute writers dropped instead of finished the document reads {:?} instead of {:?}", buf, full));
            }
            if !ok {
                cx.oracle_fail("C18", &line, "writer reports an error although the sink never failed");
            }
        }
    }
}

pub fn case_write(cx: &mut Ctx, d: &Doc, nl: bool) -> usize {
    let line = format!("LF write {} {}", nl as u8, doc_token(d));
    let r = guarded(|| {
        let mut sink = FaultSink::new(None, false);
        let ok = write_doc(d, nl, &mut sink);
        (ok, sink.calls, sink.buf)
    });
    match r {
        None => {
            cx.case(&line, "panic");
            0
        }
        Some((ok, calls, buf)) => {
            cx.case(&line, &format!("{} {} {}", if ok { "ok" } else { "err" }, calls, hex(buf.as_bytes())));
            cx.nontrivial(&line);
            if !ok {
                cx.oracle_fail("C18", &line, "writer reports an error although the sink never failed");
            }
            // C16: parse back
            if doc_wf(d) {
                let line2 = format!("LF rt {} {}", nl as u8, doc_token(d));
                match parse_all(cx, &line2, &buf, false) {
                    None => {
                        cx.case(&line2, "panic");
                        cx.oracle_fail("C16", &line2, "parsing the writer's output panicked");
                    }
                    Some((s, links, saw_err)) => {
                        cx.case(&line2, &s);
                        let same = !saw_err
                            && links.len() == d.len()
                            && links.iter().zip(d.iter()).all(|(pl, (t, attrs))| {
                                pl.target == *t
                                    && pl.attrs.len() == attrs.len()
                                    && pl.attrs.iter().zip(attrs.iter()).all(|((k, v), a)| {
                                        let (wk, wv) = render(a);
                                        *k == wk && *v == wv
                                    })
                            });
                        if !same {
                            cx.oracle_fail("C16", &line2, &format!("parsing the written document {:?} does not give back its links/keys/values", buf));
                        }
                    }
                }
            }
            calls
        }
    }
}

pub fn case_writef(cx: &mut Ctx, d: &Doc, nl: bool, k: usize, persist: bool, full: &str) {
    let line = format!("LF writef {} {} {} {}", nl as u8, k, if persist { "persist" } else { "once" }, doc_token(d));
    let r = guarded(|| {
        let mut sink = FaultSink::new(Some(k), persist);
        let ok = write_doc(d, nl, &mut sink);
        (ok, sink.calls, sink.buf, sink.wrote_after_failure)
    });
    match r {
        None => {
            cx.case(&line, "panic");
            cx.oracle_fail("C18", &line, "writer panicked on a failing sink");
        }
        Some((ok, calls, buf, after)) => {
            cx.case(&line, &format!("{} {} {}", if ok { "ok" } else { "err" }, calls, hex(buf.as_bytes())));
            cx.nontrivial(&line);
            if ok {
                cx.oracle_fail("C18", &line, &format!("sink call {} failed but the writer finally reports success", k));
            }
            if after {
                cx.oracle_fail("C18", &line, &format!("text reached the sink after the failed call {}", k));
            }
            if !full.starts_with(&buf) {
                cx.oracle_fail("C18", &line, "sink content is not a prefix of the fault-free output");
            }
        }
    }
}


/// the writer driven as an API: `set_add_newlines` may be called again between links (flags, see the
/// protocol comment) – a latched sink failure must survive every such call
fn write_doc_sw(d: &Doc, nl0: bool, flags: &[u8], sink: &mut FaultSink) -> bool {
    let mut w = LinkFormatWrite::new(sink);
    w.set_add_newlines(nl0);
    let mut inner_ok = true;
    for (i, (t, attrs)) in d.iter().enumerate() {
        match flags.get(i) {
            Some(b'0') => w.set_add_newlines(false),
            Some(b'1') => w.set_add_newlines(true),
            _ => {}
        }
        let mut aw = w.link(t);
        for a in attrs {
            aw = match a {
                AttrSpec::Plain(k, v) => aw.attr(k, v),
                AttrSpec::Quoted(k, v) => aw.attr_quoted(k, v),
                AttrSpec::U32(k, n) => aw.attr_u32(k, *n),
                AttrSpec::U16(k, n) => aw.attr_u16(k, *n),
            };
        }
        inner_ok = aw.finish().is_ok();
    }
    match flags.get(d.len()) {
        Some(b'0') => w.set_add_newlines(false),
        Some(b'1') => w.set_add_newlines(true),
        _ => {}
    }
    let fin = w.finish().is_ok();
    fin && (d.is_empty() || inner_ok)
}

pub fn case_writeo(cx: &mut Ctx, d: &Doc, nl0: bool, flags: &str, k: Option<usize>, persist: bool) -> usize {
    let full = {
        let mut sink = FaultSink::new(None, false);
        let _ = guarded(|| write_doc_sw(d, nl0, flags.as_bytes(), &mut sink));
        sink.buf
    };
    let line = format!(
        "LF writeo {} {} {} {} {}",
        nl0 as u8,
        k.map(|k| k.to_string()).unwrap_or("-".into()),
        if persist { "persist" } else { "once" },
        flags,
        doc_token(d)
    );
    let r = guarded(|| {
        let mut sink = FaultSink::new(k, persist);
        let ok = write_doc_sw(d, nl0, flags.as_bytes(), &mut sink);
        (ok, sink.calls, sink.buf, sink.wrote_after_failure, sink.failed)
    });
    match r {
        None => {
            cx.case(&line, "panic");
            cx.oracle_fail("C18", &line, "writer panicked");
            0
        }
        Some((ok, calls, buf, after, failed)) => {
            cx.case(&line, &format!("{} {} {}", if ok { "ok" } else { "err" }, calls, hex(buf.as_bytes())));
            cx.nontrivial(&line);
            if failed && ok {
                cx.oracle_fail("C18", &line, "a sink call failed but the writer finally reports success");
            }
            if !failed && !ok {
                cx.oracle_fail("C18", &line, "the sink never failed but the writer reports an error");
            }
            if after {
                cx.oracle_fail("C18", &line, "text reached the sink after the failed call");
            }
            if !full.starts_with(&buf) || (!failed && buf != full) {
                cx.oracle_fail("C18", &line, "sink content is not a prefix of the fault-free output");
            }
            calls
        }
    }
}

fn all_strings(alpha: &[char], maxlen: usize, f: &mut dyn FnMut(&str)) {
    fn rec(alpha: &[char], cur: &mut String, left: usize, f: &mut dyn FnMut(&str)) {
        f(cur);
        if left == 0 {
            return;
        }
        for a in alpha {
            cur.push(*a);
            rec(alpha, cur, left - 1, f);
            cur.pop();
        }
    }
    rec(alpha, &mut String::new(), maxlen, f);
}

fn random_value(rng: &mut Rng, maxlen: u64) -> String {
    let n = rng.below(maxlen + 1);
    let alpha = ['<', '>', ';', ',', '"', '\\', '=', ' ', '\n', 'a', 'Z', '9', '\u{e9}', '\u{20ac}', '\u{1f601}', '\t', '\r', '/', '\u{a0}', '\u{b}', '\u{c}', '\u{85}', '\u{2003}', '\u{3000}', '\u{0}', '\u{7f}', '\u{1f}', '\u{2028}'];
    (0..n).map(|_| *rng.pick(&alpha)).collect()
}

fn random_doc(rng: &mut Rng) -> Doc {
    let nl = rng.below(5) as usize;
    // the last three keys are legal for the writer (its assertion forbids white space and '=' only) but contain
    // separators: such documents are outside C16 (`doc_wf`), not outside C18's "every document"
    let keys = ["rt", "if", "sz", "title", "ct", "obs", "k\u{e9}", "x-y", "a1", "a;b", "c,d", "q\"x"];
    (0..nl)
        .map(|_| {
            let t: String = {
                let n = rng.below(8);
                let alpha = ['/', 'a', 'b', '<', ';', ',', '"', ' ', '\u{e9}', '=', '\\'];
                (0..n).map(|_| *rng.pick(&alpha)).collect()
            };
            let na = rng.below(5) as usize;
            let attrs = (0..na)
                .map(|_| {
                    let k = rng.pick(&keys).to_string();
                    match rng.below(6) {
                        0 | 1 => AttrSpec::Plain(k, random_value(rng, 8)),
                        2 | 3 => AttrSpec::Quoted(k, random_value(rng, 8)),
                        4 => AttrSpec::U32(k, *rng.pick(&[0u32, 1, 9, 10, 40, 65535, 65536, u32::MAX])),
                        _ => AttrSpec::U16(k, *rng.pick(&[0u16, 7, 255, 256, u16::MAX])),
                    }
                })
                .collect();
            (t, attrs)
        })
        .collect()
}

pub fn run(cx: &mut Ctx) {
    let thorough = cx.tier_thorough;
    let mut rng = Rng(cx.seed ^ 0x4c46);

    // corpus: D11 / D12 witnesses and documents from the RFC
    for s in ["\"", "\"ab\u{20ac}", "\"abc", "\"ab\"cd", "\"a\\\"b\"", "abc", "", "\"\"", "\"\\", "\"a\\", "\"a\"\"b\""] {
        case_cow(cx, s);
    }
    for s in [
        "</sensors>;ct=40;title=\"Sensor Index\",</sensors/temp>;rt=\"temperature-c\";if=\"sensor\",</sensors/light>;rt=\"light-lux\";if=\"sensor\"",
        "<coap://[2001:db8:f1::2]/>;rt=\"core.rd-group\";anchor=\"coap://[2001:db8:f1::2]/\",  \n<a>;x",
        "</a>;k=\"v,;\\\"\",</b>",
        "</a>;=;;k = v ;\u{a0}q\u{a0}=\u{2003}w",
        "<", "<>", "<a", "x", " ", ",", "<a>,", "<a>,,", "<a>;;,<b>",
    ] {
        case_parse(cx, s);
    }

    // ---- whitespace subtleties: ASCII vs Unicode whitespace (incl. multi-byte) and control characters
    //      at the start of a link, around keys/values, and as whole values through the writer
    {
        let ws = ['\u{a0}', '\u{85}', '\u{2003}', '\u{3000}', '\u{b}', '\u{c}', '\u{1680}', '\u{2028}', '\u{202f}', '\u{205f}', ' ', '\t', '\n', '\r', '\u{0}', '\u{7f}', '\u{1f}'];
        for &w in &ws {
            for pat in ["{w}</a>;x=\"y\"", "</a>,{w}</b>", "</a>,{w}{w}</b>;k=v", "</a>;{w}k{w}={w}v{w}", "</a>;k=\"{w}\"", "{w}", "<{w}>;{w}", "</a>;k={w}v,{w}<b>", "a{w}</a>"] {
                case_parse(cx, &pat.replace("{w}", &w.to_string()));
            }
            for val in [format!("{}", w), format!("abc{}", w), format!("{}abc", w), format!("a{}b", w), format!("{}{}", w, w)] {
                let d: Doc = vec![("/t".into(), vec![AttrSpec::Plain("k".into(), val.clone()), AttrSpec::Quoted("q".into(), val.clone())]), ("/u".into(), vec![])];
                case_write(cx, &d, false);
                case_write(cx, &d, true);
            }
        }
        // keys with non-ASCII whitespace (allowed by the writer's own assertion, which is ASCII-only)
        for key in ["k\u{a0}", "\u{3000}k", "t\u{e9}mp"] {
            let d: Doc = vec![("/s/t".into(), vec![AttrSpec::Plain(key.into(), "v".into()), AttrSpec::U16("n".into(), 7)])];
            let line = format!("LF write 0 {}", doc_token(&d));
            let r = guarded(|| {
                let mut sink = FaultSink::new(None, false);
                let ok = write_doc(&d, false, &mut sink);
                (ok, sink.calls, sink.buf)
            });
            match r {
                None => cx.case(&line, "panic"),
                Some((ok, calls, buf)) => {
                    cx.case(&line, &format!("{} {} {}", if ok { "ok" } else { "err" }, calls, hex(buf.as_bytes())));
                    if !ok {
                        cx.oracle_fail("C18", &line, "writer reports an error although the sink never failed");
                    }
                }
            }
        }
    }
    // ---- long attribute values: an escape (or none) at every offset of a long value, and fault
    //      injection on documents with long values
    {
        for filler in ["x", "\u{1f600}", "\u{e9}"] {
            for off in (0..140usize).chain([200, 255, 256, 300]) {
                for esc in ["\"", "\\", ""] {
                    let mut v: String = filler.repeat(off);
                    v.push_str(esc);
                    v.push('z');
                    let d: Doc = vec![("/l".into(), vec![AttrSpec::Quoted("t".into(), v.clone())]), ("/m".into(), vec![AttrSpec::Plain("p".into(), v)])];
                    let calls = case_write(cx, &d, off % 2 == 0);
                    if filler == "x" && (off % 16 == 0 || off == 63 || off == 64 || off == 65 || off == 127 || off == 128) {
                        let full = {
                            let mut sink = FaultSink::new(None, false);
                            let _ = guarded(|| write_doc(&d, off % 2 == 0, &mut sink));
                            sink.buf
                        };
                        for k in (0..calls.min(12)).chain(calls.saturating_sub(6)..calls) {
                            for persist in [false, true] {
                                case_writef(cx, &d, off % 2 == 0, k, persist, &full);
                            }
                        }
                    }
                }
            }
        }
    }

    // ---- C17: exhaustive short strings over the structural alphabet
    let alpha = ['<', '>', ';', ',', '"', '\\', '=', ' ', 'a', '\u{e9}'];
    let maxlen = if thorough { 7 } else { 5 };
    let mut strings: Vec<String> = vec![];
    all_strings(&alpha, maxlen, &mut |s| strings.push(s.to_string()));
    for s in &strings {
        case_parse(cx, s);
    }
    // unquoting paths on all strings up to length 5 (6 thorough)
    let mut vals: Vec<String> = vec![];
    all_strings(&['"', '\\', 'a', '\u{e9}', ';'], if thorough { 7 } else { 6 }, &mut |s| vals.push(s.to_string()));
    for s in &vals {
        case_cow(cx, s);
    }
    // … and over the white-space characters a quoted string may contain (CR, LF, SP, HT – the line folding of
    // RFC 2616 is NOT part of unquoting: both paths hand the characters on as they are)
    let mut wsvals: Vec<String> = vec![];
    all_strings(&['"', '\r', '\n', ' ', '\t', 'a', '\\'], if thorough { 6 } else { 5 }, &mut |s| wsvals.push(s.to_string()));
    for s in &wsvals {
        case_cow(cx, s);
    }
    cx.exhaustive.push("both unquoting paths on every string of length <= 5 (6) over {\" CR LF SP HT a \\}".into());
    // partially consumed iterators: every string up to length 5 (6 thorough) x every number of next() calls
    for s in &vals {
        let n = s.chars().count();
        if n <= (if thorough { 6 } else { 5 }) {
            for k in 0..=n + 1 {
                case_cowk(cx, k, s);
            }
        }
    }
    cx.exhaustive.push(format!("link parser on every string of length <= {} over {{< > ; , \" \\ = space a e-acute}}; both unquoting paths on every string of length <= {} over {{\" \\ a e-acute ;}}", maxlen, if thorough { 7 } else { 6 }));
    if !thorough {
        // sample of length 6 and 7
        for _ in 0..60000 {
            let n = rng.range(6, 8);
            let s: String = (0..n).map(|_| *rng.pick(&alpha)).collect();
            case_parse(cx, &s);
        }
    }
    // random longer strings over a wider alphabet incl. 4-byte code points
    let nlong = if thorough { 100000 } else { 20000 };
    for _ in 0..nlong {
        let s = random_value(&mut rng, 40);
        case_parse(cx, &s);
        if rng.chance(1, 4) {
            case_cow(cx, &s);
        }
    }

    // ---- C16 / C18: documents
    // exhaustive values up to length 4 (3 quick) over the structural alphabet, each through all three writer methods
    let valpha = ['<', '>', ';', ',', '"', '\\', '=', ' ', '\n', 'a', '\u{e9}', '\u{20ac}'];
    let vmax = if thorough { 4 } else { 3 };
    let mut values: Vec<String> = vec![];
    all_strings(&valpha, vmax, &mut |s| values.push(s.to_string()));
    for (i, v) in values.iter().enumerate() {
        let nl = i % 2 == 0;
        let d: Doc = vec![
            ("/a".into(), vec![AttrSpec::Plain("k".into(), v.clone()), AttrSpec::Quoted("q".into(), v.clone())]),
            ("/b".into(), vec![AttrSpec::U32("n".into(), (i as u32).wrapping_mul(2654435761))]),
        ];
        case_write(cx, &d, nl);
    }
    cx.exhaustive.push(format!("every attribute value of length <= {} over 12 structural / multi-byte characters, written by attr and attr_quoted and parsed back", vmax));
    let ndocs = if thorough { 20000 } else { 3000 };
    let mut faults = 0u64;
    for i in 0..ndocs {
        let d = random_doc(&mut rng);
        if d.len() >= 2 && i % 2 == 0 {
            let all = (1u64 << d.len().min(63)) - 1;
            for mask in [all, 1, all >> 1, rng.next() & all] {
                case_writenf(cx, &d, i % 4 == 0, mask);
            }
        }
        for nl in [false, true] {
            let calls = case_write(cx, &d, nl);
            // every fault position x once/persist (complete enumeration per document)
            if i % 3 == 0 {
                let full = {
                    let mut sink = FaultSink::new(None, false);
                    let _ = guarded(|| write_doc(&d, nl, &mut sink));
                    sink.buf
                };
                for k in 0..calls {
                    for persist in [false, true] {
                        case_writef(cx, &d, nl, k, persist, &full);
                        faults += 1;
                    }
                }
            }
        }
    }
    cx.stat_n("fault_injections", faults);
    // directed: 0..4 links x 0..4 attributes
    for nlinks in 0..=4usize {
        for nattrs in 0..=4usize {
            let d: Doc = (0..nlinks)
                .map(|i| {
                    (
                        format!("/r{}", i),
                        (0..nattrs)
                            .map(|j| match (i + j) % 4 {
                                0 => AttrSpec::Plain(format!("k{}", j), "v".into()),
                                1 => AttrSpec::Quoted(format!("k{}", j), "a\"b\\;,<>".into()),
                                2 => AttrSpec::U32(format!("k{}", j), 4294967295),
                                _ => AttrSpec::U16(format!("k{}", j), 40),
                            })
                            .collect(),
                    )
                })
                .collect();
            for nl in [false, true] {
                let calls = case_write(cx, &d, nl);
                let full = {
                    let mut sink = FaultSink::new(None, false);
                    let _ = guarded(|| write_doc(&d, nl, &mut sink));
                    sink.buf
                };
                for k in 0..calls {
                    for persist in [false, true] {
                        case_writef(cx, &d, nl, k, persist, &full);
                    }
                }
            }
            // the newline option switched again in the middle of the document (and before finish):
            // every fault position x once/persist x a few switch patterns
            if nlinks >= 1 && nattrs <= 2 {
                let n = nlinks + 1;
                let pats: Vec<String> = vec![
                    "1".repeat(n),
                    "0".repeat(n),
                    (0..n).map(|i| if i % 2 == 0 { '1' } else { '0' }).collect(),
                    (0..n).map(|i| if i == n - 1 { '1' } else { '-' }).collect(),
                    (0..n).map(|i| if i == 1 { '0' } else { '-' }).collect(),
                ];
                for flags in &pats {
                    for nl in [false, true] {
                        let calls = case_writeo(cx, &d, nl, flags, None, false);
                        for k in 0..calls {
                            for persist in [false, true] {
                                case_writeo(cx, &d, nl, flags, Some(k), persist);
                            }
                        }
                    }
                }
            }
        }
    }
    cx.exhaustive.push("for each fault-tested document: every sink-call index x {fail once, fail persistently} x newline on/off".into());
    // every prefix of well-formed documents through the parser
    for _ in 0..(if thorough { 2000 } else { 300 }) {
        let d = random_doc(&mut rng);
        let mut sink = FaultSink::new(None, false);
        if guarded(|| write_doc(&d, rng.0 % 2 == 0, &mut sink)).is_some() {
            let s = sink.buf;
            let idx: Vec<usize> = s.char_indices().map(|(i, _)| i).chain(std::iter::once(s.len())).collect();
            for &i in &idx {
                case_parse(cx, &s[..i]);
            }
        }
    }
    let _ = unhex("-");
}
