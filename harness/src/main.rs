//! Correspondence harness: generates cases for one domain from a seed, runs
//! the REAL coap-lite code (built from /repo's working tree) on each of them
//! in-process under `catch_unwind`, and writes
//!   cases.txt   one protocol line per case (the Lean driver's input)
//!   impl.out    the canonicalised observable result of each line
//!   oracle.txt  failures of the property's *direct oracle* (independent of the model)
//!   stats.json  the input distribution actually hit
//! usage: harness <domain> <quick|thorough> <seed> <outdir> [replay-file]
#![allow(dead_code)]

use std::collections::{BTreeMap, BTreeSet};
use std::fmt::Write as _;
use std::fs::File;
use std::io::{BufWriter, Write};
use std::panic::{catch_unwind, AssertUnwindSafe};

mod acc;
mod blk;
mod bv;
mod lf;
mod obs;
mod pkt;
mod resp;
mod tbl;
mod uint;

#[global_allocator]
static GLOBAL: blk::Counting = blk::Counting;

pub struct Rng(pub u64);
impl Rng {
    pub fn next(&mut self) -> u64 {
        self.0 = self.0.wrapping_add(0x9E3779B97F4A7C15);
        let mut z = self.0;
        z = (z ^ (z >> 30)).wrapping_mul(0xBF58476D1CE4E5B9);
        z = (z ^ (z >> 27)).wrapping_mul(0x94D049BB133111EB);
        z ^ (z >> 31)
    }
    pub fn below(&mut self, n: u64) -> u64 {
        if n == 0 {
            0
        } else {
            self.next() % n
        }
    }
    pub fn range(&mut self, lo: u64, hi: u64) -> u64 {
        lo + self.below(hi - lo + 1)
    }
    pub fn pick<'a, T>(&mut self, xs: &'a [T]) -> &'a T {
        &xs[self.below(xs.len() as u64) as usize]
    }
    pub fn chance(&mut self, num: u64, den: u64) -> bool {
        self.below(den) < num
    }
    pub fn bytes(&mut self, n: usize) -> Vec<u8> {
        (0..n).map(|_| self.next() as u8).collect()
    }
}

pub fn hex(b: &[u8]) -> String {
    if b.is_empty() {
        return "-".to_string();
    }
    let mut s = String::with_capacity(b.len() * 2);
    for x in b {
        let _ = write!(s, "{:02x}", x);
    }
    s
}

pub fn unhex(s: &str) -> Vec<u8> {
    if s == "-" {
        return vec![];
    }
    (0..s.len() / 2)
        .map(|i| u8::from_str_radix(&s[2 * i..2 * i + 2], 16).unwrap())
        .collect()
}

pub struct Ctx {
    pub tier_thorough: bool,
    pub seed: u64,
    pub rng: Rng,
    cases: BufWriter<File>,
    out: BufWriter<File>,
    oracle: BufWriter<File>,
    pub n_lines: u64,
    pub n_oracle_fail: u64,
    pub stats: BTreeMap<String, u64>,
    pub distinct: BTreeSet<u64>,
    pub samples: Vec<String>,
    pub exhaustive: Vec<String>,
}

fn fnv(s: &str) -> u64 {
    let mut h: u64 = 0xcbf29ce484222325;
    for b in s.bytes() {
        h ^= b as u64;
        h = h.wrapping_mul(0x100000001b3);
    }
    h
}

impl Ctx {
    /// record one protocol line and the implementation's result for it
    pub fn case(&mut self, line: &str, result: &str) {
        writeln!(self.cases, "{}", line).unwrap();
        writeln!(self.out, "{}", result).unwrap();
        self.n_lines += 1;
        if self.samples.len() < 6 && (self.n_lines % 9973 == 1 || self.samples.len() < 2) {
            self.samples.push(format!("{} => {}", trunc(line), trunc(result)));
        }
    }
    /// count a case as non-trivial (it reached past the first guard of the
    /// function under test); distinctness by hash of the canonical line
    pub fn nontrivial(&mut self, line: &str) {
        self.distinct.insert(fnv(line));
    }
    pub fn stat(&mut self, key: &str) {
        *self.stats.entry(key.to_string()).or_insert(0) += 1;
    }
    pub fn stat_n(&mut self, key: &str, n: u64) {
        *self.stats.entry(key.to_string()).or_insert(0) += n;
    }
    /// the property's direct oracle failed on the implementation's own output
    pub fn oracle_fail(&mut self, prop: &str, line: &str, detail: &str) {
        // keep the file small when a change breaks a property on millions of inputs
        if self.n_oracle_fail < 20000 {
            writeln!(self.oracle, "{}\t{}\t{}", prop, line, detail).unwrap();
        }
        self.n_oracle_fail += 1;
    }
}

fn trunc(s: &str) -> String {
    if s.len() > 160 {
        format!("{}…({} chars)", &s[..160], s.len())
    } else {
        s.to_string()
    }
}

/// run `f` catching panics; `None` = panicked
pub fn guarded<T>(f: impl FnOnce() -> T) -> Option<T> {
    catch_unwind(AssertUnwindSafe(f)).ok()
}

fn main() {
    std::panic::set_hook(Box::new(|_| {}));
    let args: Vec<String> = std::env::args().collect();
    if args.len() < 5 {
        eprintln!("usage: harness <domain> <quick|thorough> <seed> <outdir> [replay]");
        std::process::exit(2);
    }
    let domain = args[1].as_str();
    let thorough = args[2] == "thorough";
    let seed: u64 = args[3].parse().unwrap_or(0);
    let outdir = &args[4];
    std::fs::create_dir_all(outdir).unwrap();
    let mk = |n: &str| BufWriter::new(File::create(format!("{}/{}", outdir, n)).unwrap());
    let mut cx = Ctx {
        tier_thorough: thorough,
        seed,
        rng: Rng(seed ^ fnv(domain)),
        cases: mk("cases.txt"),
        out: mk("impl.out"),
        oracle: mk("oracle.txt"),
        n_lines: 0,
        n_oracle_fail: 0,
        stats: BTreeMap::new(),
        distinct: BTreeSet::new(),
        samples: vec![],
        exhaustive: vec![],
    };
    let replay = args.get(5).cloned();
    match domain {
        "TBL" => tbl::run(&mut cx),
        "BV" => bv::run(&mut cx),
        "UINT" => uint::run(&mut cx),
        "PKT" => pkt::run(&mut cx, replay.as_deref()),
        "RESP" => resp::run(&mut cx),
        "ACC" => acc::run(&mut cx),
        "OBS" => obs::run(&mut cx),
        "LF" => lf::run(&mut cx),
        "BLK" => blk::run(&mut cx),
        _ => {
            eprintln!("unknown domain {}", domain);
            std::process::exit(2);
        }
    }
    cx.cases.flush().unwrap();
    cx.out.flush().unwrap();
    cx.oracle.flush().unwrap();
    // stats.json
    let mut s = String::new();
    s.push_str("{\n");
    let _ = write!(
        s,
        " \"domain\": \"{}\", \"lines\": {}, \"distinct_nontrivial\": {}, \"oracle_failures\": {},\n",
        domain,
        cx.n_lines,
        cx.distinct.len(),
        cx.n_oracle_fail
    );
    s.push_str(" \"overflow_checks\": ");
    s.push_str(if cfg!(debug_assertions) { "true" } else { "false" });
    s.push_str(",\n \"exhaustive\": [");
    s.push_str(
        &cx.exhaustive
            .iter()
            .map(|x| format!("\"{}\"", x.replace('\\', "\\\\").replace('"', "'")))
            .collect::<Vec<_>>()
            .join(", "),
    );
    s.push_str("],\n \"distribution\": {");
    s.push_str(
        &cx.stats
            .iter()
            .map(|(k, v)| format!("\"{}\": {}", k, v))
            .collect::<Vec<_>>()
            .join(", "),
    );
    s.push_str("},\n \"samples\": [");
    s.push_str(
        &cx.samples
            .iter()
            .map(|x| format!("\"{}\"", x.replace('\\', "\\\\").replace('"', "'")))
            .collect::<Vec<_>>()
            .join(", "),
    );
    s.push_str("]\n}\n");
    std::fs::write(format!("{}/stats.json", outdir), s).unwrap();
}
