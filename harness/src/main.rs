fn main() {
    harness::main_cli()
}
