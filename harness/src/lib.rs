//! Correspondence harness: generates cases for one domain from a seed, runs
//! the REAL coap-lite code (built from /repo's working tree) on each of them
//! in-process under `catch_unwind`, and writes
//!   cases.txt   one protocol line per case (the Lean driver's input)
//!   impl.out    the canonicalised observable result of each line
//!   oracle.txt  failures of the property's *direct oracle* (independent of the model)
//!   stats.json  the input distribution actually hit
//! usage: harness <domain> <quick|thorough> <seed> <outdir> [replay-file]
#![allow(dead_code)]

use std::collections::{BTreeMap, BTreeSet};
use std::fmt::Write as _;
use std::fs::File;
use std::io::{BufWriter, Write};
use std::panic::{catch_unwind, AssertUnwindSafe};

pub mod acc;
pub mod blk;
pub mod bv;
pub mod fuzz;
pub mod lf;
pub mod obs;
pub mod pkt;
pub mod resp;
pub mod tbl;
pub mod uint;

#[global_allocator]
static GLOBAL: blk::Counting = blk::Counting;

pub struct Rng(pub u64);

// ---- byte tape: when set (fuzz / corpus mode) the generators draw their choices from the
// bytes of one fuzzer input instead of the PRNG, so that a coverage-guided mutator steers the
// structured generators; value bytes are taken verbatim from the tape (visible to the
// fuzzer's comparison tracing). When the tape runs out the PRNG continues.
static TAPE_ON: std::sync::atomic::AtomicBool = std::sync::atomic::AtomicBool::new(false);
thread_local! {
    static TAPE: std::cell::RefCell<(Vec<u8>, usize)> = std::cell::RefCell::new((Vec::new(), 0));
}
pub fn tape_set(data: &[u8]) {
    TAPE.with(|t| {
        let mut t = t.borrow_mut();
        t.0.clear();
        t.0.extend_from_slice(data);
        t.1 = 0;
    });
    TAPE_ON.store(true, std::sync::atomic::Ordering::Relaxed);
}
pub fn tape_clear() {
    TAPE_ON.store(false, std::sync::atomic::Ordering::Relaxed);
}
pub fn tape_left() -> usize {
    if !TAPE_ON.load(std::sync::atomic::Ordering::Relaxed) {
        return 0;
    }
    TAPE.with(|t| {
        let t = t.borrow();
        t.0.len() - t.1
    })
}
/// up to `k` bytes from the tape as a little-endian number; None when the tape is off or empty
fn tape_take(k: usize) -> Option<u64> {
    if !TAPE_ON.load(std::sync::atomic::Ordering::Relaxed) {
        return None;
    }
    TAPE.with(|t| {
        let mut t = t.borrow_mut();
        let (pos, len) = (t.1, t.0.len());
        if pos >= len {
            return None;
        }
        let n = k.min(len - pos);
        let mut v = 0u64;
        for i in 0..n {
            v |= (t.0[pos + i] as u64) << (8 * i);
        }
        t.1 += n;
        Some(v)
    })
}
impl Rng {
    fn prng(&mut self) -> u64 {
        self.0 = self.0.wrapping_add(0x9E3779B97F4A7C15);
        let mut z = self.0;
        z = (z ^ (z >> 30)).wrapping_mul(0xBF58476D1CE4E5B9);
        z = (z ^ (z >> 27)).wrapping_mul(0x94D049BB133111EB);
        z ^ (z >> 31)
    }
    pub fn next(&mut self) -> u64 {
        match tape_take(8) {
            Some(v) => v,
            None => self.prng(),
        }
    }
    pub fn below(&mut self, n: u64) -> u64 {
        if n == 0 {
            return 0;
        }
        let k = if n <= 256 { 1 } else if n <= 65536 { 2 } else if n <= 1 << 32 { 4 } else { 8 };
        match tape_take(k) {
            Some(v) => v % n,
            None => self.prng() % n,
        }
    }
    pub fn range(&mut self, lo: u64, hi: u64) -> u64 {
        lo + self.below(hi - lo + 1)
    }
    pub fn pick<'a, T>(&mut self, xs: &'a [T]) -> &'a T {
        &xs[self.below(xs.len() as u64) as usize]
    }
    pub fn chance(&mut self, num: u64, den: u64) -> bool {
        self.below(den) < num
    }
    pub fn bytes(&mut self, n: usize) -> Vec<u8> {
        (0..n)
            .map(|_| match tape_take(1) {
                Some(v) => v as u8,
                None => self.prng() as u8,
            })
            .collect()
    }
}

pub fn hex(b: &[u8]) -> String {
    if b.is_empty() {
        return "-".to_string();
    }
    let mut s = String::with_capacity(b.len() * 2);
    for x in b {
        let _ = write!(s, "{:02x}", x);
    }
    s
}

pub fn unhex(s: &str) -> Vec<u8> {
    if s == "-" {
        return vec![];
    }
    (0..s.len() / 2)
        .map(|i| u8::from_str_radix(&s[2 * i..2 * i + 2], 16).unwrap())
        .collect()
}

pub struct Ctx {
    pub tier_thorough: bool,
    pub seed: u64,
    pub rng: Rng,
    cases: Box<dyn Write>,
    out: Box<dyn Write>,
    oracle: Box<dyn Write>,
    pub n_lines: u64,
    pub n_oracle_fail: u64,
    pub stats: BTreeMap<String, u64>,
    pub distinct: BTreeSet<u64>,
    pub samples: Vec<String>,
    pub exhaustive: Vec<String>,
    /// fuzz mode: oracle failures of the current input are kept here instead of being written
    pub capture: bool,
    pub captured: Vec<(String, String, String)>,
}

fn fnv(s: &str) -> u64 {
    let mut h: u64 = 0xcbf29ce484222325;
    for b in s.bytes() {
        h ^= b as u64;
        h = h.wrapping_mul(0x100000001b3);
    }
    h
}

impl Ctx {
    /// a context that writes nothing (fuzz mode); oracle failures are captured per input
    pub fn sink() -> Ctx {
        Ctx {
            tier_thorough: false,
            seed: 0,
            rng: Rng(0),
            cases: Box::new(std::io::sink()),
            out: Box::new(std::io::sink()),
            oracle: Box::new(std::io::sink()),
            n_lines: 0,
            n_oracle_fail: 0,
            stats: BTreeMap::new(),
            distinct: BTreeSet::new(),
            samples: vec![],
            exhaustive: vec![],
            capture: true,
            captured: vec![],
        }
    }
    /// record one protocol line and the implementation's result for it
    pub fn case(&mut self, line: &str, result: &str) {
        if self.capture {
            self.n_lines += 1;
            return;
        }
        writeln!(self.cases, "{}", line).unwrap();
        writeln!(self.out, "{}", result).unwrap();
        self.n_lines += 1;
        if self.samples.len() < 6 && (self.n_lines % 9973 == 1 || self.samples.len() < 2) {
            self.samples.push(format!("{} => {}", trunc(line), trunc(result)));
        }
    }
    /// count a case as non-trivial (it reached past the first guard of the
    /// function under test); distinctness by hash of the canonical line
    pub fn nontrivial(&mut self, line: &str) {
        if self.capture {
            return;
        }
        self.distinct.insert(fnv(line));
    }
    pub fn stat(&mut self, key: &str) {
        if self.capture {
            return;
        }
        *self.stats.entry(key.to_string()).or_insert(0) += 1;
    }
    pub fn stat_n(&mut self, key: &str, n: u64) {
        if self.capture {
            return;
        }
        *self.stats.entry(key.to_string()).or_insert(0) += n;
    }
    /// the property's direct oracle failed on the implementation's own output
    pub fn oracle_fail(&mut self, prop: &str, line: &str, detail: &str) {
        if self.capture {
            if self.captured.len() < 4 {
                self.captured.push((prop.to_string(), trunc(line), trunc(detail)));
            }
            self.n_oracle_fail += 1;
            return;
        }
        // keep the file small when a change breaks a property on millions of inputs
        if self.n_oracle_fail < 20000 {
            writeln!(self.oracle, "{}\t{}\t{}", prop, line, detail).unwrap();
        }
        self.n_oracle_fail += 1;
    }
}

fn trunc(s: &str) -> String {
    if s.len() > 160 {
        format!("{}…({} chars)", &s[..160], s.len())
    } else {
        s.to_string()
    }
}

/// run `f` catching panics; `None` = panicked
pub fn guarded<T>(f: impl FnOnce() -> T) -> Option<T> {
    catch_unwind(AssertUnwindSafe(f)).ok()
}

pub fn main_cli() {
    std::panic::set_hook(Box::new(|_| {}));
    let args: Vec<String> = std::env::args().collect();
    if args.len() < 5 {
        eprintln!("usage: harness <domain> <quick|thorough> <seed> <outdir> [replay]");
        std::process::exit(2);
    }
    let domain = args[1].as_str();
    let thorough = args[2] == "thorough";
    let seed: u64 = args[3].parse().unwrap_or(0);
    let outdir = &args[4];
    std::fs::create_dir_all(outdir).unwrap();
    let mk = |n: &str| -> Box<dyn Write> { Box::new(BufWriter::new(File::create(format!("{}/{}", outdir, n)).unwrap())) };
    let mut cx = Ctx {
        tier_thorough: thorough,
        seed,
        rng: Rng(seed ^ fnv(domain)),
        cases: mk("cases.txt"),
        out: mk("impl.out"),
        oracle: mk("oracle.txt"),
        n_lines: 0,
        n_oracle_fail: 0,
        stats: BTreeMap::new(),
        distinct: BTreeSet::new(),
        samples: vec![],
        exhaustive: vec![],
        capture: false,
        captured: vec![],
    };
    let replay = args.get(5).cloned();
    if args[2] == "corpus" {
        // corpus mode: every file of the given directories (coverage-guided corpus and findings of
        // the fuzz stage, committed seeds) is one input of the domain's fuzz entry point
        let mut files: Vec<std::path::PathBuf> = vec![];
        for d in args[5..].iter() {
            if let Ok(rd) = std::fs::read_dir(d) {
                for e in rd.flatten() {
                    if e.path().is_file() {
                        files.push(e.path());
                    }
                }
            }
        }
        files.sort_by(|a, b| a.file_name().cmp(&b.file_name()));
        files.dedup_by(|a, b| a.file_name() == b.file_name());
        for f in &files {
            if let Ok(data) = std::fs::read(f) {
                fuzz::one(&mut cx, domain, &data);
                cx.stat("corpus_inputs");
            }
        }
        tape_clear();
    } else {
    match domain {
        "TBL" => tbl::run(&mut cx),
        "BV" => bv::run(&mut cx),
        "UINT" => uint::run(&mut cx),
        "PKT" => pkt::run(&mut cx, replay.as_deref()),
        "RESP" => resp::run(&mut cx),
        "ACC" => acc::run(&mut cx),
        "OBS" => obs::run(&mut cx),
        "LF" => lf::run(&mut cx),
        "BLK" => blk::run(&mut cx),
        _ => {
            eprintln!("unknown domain {}", domain);
            std::process::exit(2);
        }
    }
    }
    cx.cases.flush().unwrap();
    cx.out.flush().unwrap();
    cx.oracle.flush().unwrap();
    // stats.json
    let mut s = String::new();
    s.push_str("{\n");
    let _ = write!(
        s,
        " \"domain\": \"{}\", \"lines\": {}, \"distinct_nontrivial\": {}, \"oracle_failures\": {},\n",
        domain,
        cx.n_lines,
        cx.distinct.len(),
        cx.n_oracle_fail
    );
    s.push_str(" \"overflow_checks\": ");
    s.push_str(if cfg!(debug_assertions) { "true" } else { "false" });
    s.push_str(",\n \"exhaustive\": [");
    s.push_str(
        &cx.exhaustive
            .iter()
            .map(|x| format!("\"{}\"", x.replace('\\', "\\\\").replace('"', "'")))
            .collect::<Vec<_>>()
            .join(", "),
    );
    s.push_str("],\n \"distribution\": {");
    s.push_str(
        &cx.stats
            .iter()
            .map(|(k, v)| format!("\"{}\": {}", k, v))
            .collect::<Vec<_>>()
            .join(", "),
    );
    s.push_str("},\n \"samples\": [");
    s.push_str(
        &cx.samples
            .iter()
            .map(|x| format!("\"{}\"", x.replace('\\', "\\\\").replace('"', "'")))
            .collect::<Vec<_>>()
            .join(", "),
    );
    s.push_str("]\n}\n");
    std::fs::write(format!("{}/stats.json", outdir), s).unwrap();
}
