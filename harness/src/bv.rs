//! Domain BV: `BlockValue` (RFC 7959 §2.2) – C13.
use crate::{guarded, hex, Ctx};
use coap_lite::block_handler::BlockValue;
use std::convert::TryFrom;

fn min_be(mut v: u64) -> Vec<u8> {
    let mut out = vec![];
    while v > 0 {
        out.push((v & 0xff) as u8);
        v >>= 8;
    }
    out.reverse();
    out
}

fn show(r: Option<Result<BlockValue, ()>>) -> String {
    match r {
        None => "panic".into(),
        Some(Err(_)) => "err".into(),
        Some(Ok(b)) => format!("ok {} {} {}", b.num, b.more as u8, b.size_exponent),
    }
}

pub fn do_new(cx: &mut Ctx, num: usize, more: bool, size: usize) {
    let line = format!("BV new {} {} {}", num, more as u8, size);
    let r = guarded(|| BlockValue::new(num, more, size).map_err(|_| ()));
    let s = show(r.clone());
    cx.case(&line, &s);
    // direct oracle (C13): largest power of two not exceeding size, at least 16;
    // fails for size 0, size >= 4096, or a block number that does not fit.
    let expect = if size == 0 || size >= 4096 || num > 65535 {
        "err".to_string()
    } else {
        let lg = (usize::BITS - 1 - size.leading_zeros()) as i64;
        let szx = if lg < 4 { 0 } else { lg - 4 };
        format!("ok {} {} {}", num, more as u8, szx)
    };
    if s != expect {
        cx.oracle_fail("C13", &line, &format!("BlockValue::new gives {} but RFC 7959 construction rule gives {}", s, expect));
    }
    if size != 0 && size < 4096 && num <= 65535 {
        cx.nontrivial(&line);
    }
}

pub fn do_dec(cx: &mut Ctx, bytes: &[u8]) {
    let line = format!("BV dec {}", hex(bytes));
    let v = bytes.to_vec();
    let r = guarded(|| BlockValue::try_from(v).map_err(|_| ()));
    let s = show(r);
    cx.case(&line, &s);
    let expect = if bytes.len() > 3 {
        "err".to_string()
    } else {
        let val = bytes.iter().fold(0u64, |a, &b| (a << 8) | b as u64);
        if (val >> 4) > 65535 {
            "err".to_string()
        } else {
            format!("ok {} {} {}", val >> 4, (val >> 3) & 1, val & 7)
        }
    };
    if s != expect {
        cx.oracle_fail("C13", &line, &format!("decoding gives {} but NUM<<4|M<<3|SZX reading gives {}", s, expect));
    }
    if bytes.len() <= 3 {
        cx.nontrivial(&line);
    }
}

pub fn run(cx: &mut Ctx) {
    // ---- encode / decode round trip, exhaustive over the type
    for num in 0..=65535u32 {
        for more in [false, true] {
            for szx in 0..8u8 {
                let bv = BlockValue { num: num as u16, more, size_exponent: szx };
                let line = format!("BV enc {} {} {}", num, more as u8, szx);
                let enc = guarded(|| Vec::<u8>::from(bv.clone()));
                match enc {
                    None => {
                        cx.case(&line, "panic");
                        cx.oracle_fail("C13", &line, "encoding panics");
                    }
                    Some(bytes) => {
                        cx.case(&line, &hex(&bytes));
                        let scalar = ((num as u64) << 4) | ((more as u64) << 3) | szx as u64;
                        let want = min_be(scalar);
                        if bytes != want {
                            cx.oracle_fail("C13", &line, &format!("encodes as {} instead of minimal uint {}", hex(&bytes), hex(&want)));
                        }
                        let back = guarded(|| BlockValue::try_from(bytes.clone()).map_err(|_| ()));
                        let ok = matches!(&back, Some(Ok(b)) if *b == bv);
                        if !ok {
                            cx.oracle_fail("C13", &line, &format!("decode(encode(v)) = {} for v = {} {} {}", show(back), num, more as u8, szx));
                        }
                        if num % 64 == 0 || num >= 4090 && num <= 4100 || num > 65500 {
                            cx.nontrivial(&line);
                        }
                    }
                }
            }
        }
    }
    cx.exhaustive.push("encode+decode for all num 0..65535 x more x szx 0..7".into());
    for szx in 0..8u8 {
        let bv = BlockValue { num: 0, more: false, size_exponent: szx };
        let line = format!("BV size {}", szx);
        let r = guarded(|| bv.size());
        cx.case(&line, &r.map(|x| x.to_string()).unwrap_or("panic".into()));
        if r != Some(1usize << (szx + 4)) {
            cx.oracle_fail("C13", &line, "block size is not 2^(SZX+4)");
        }
    }

    // ---- decode of byte strings
    do_dec(cx, &[]);
    for a in 0..=255u8 {
        do_dec(cx, &[a]);
        for b in 0..=255u8 {
            do_dec(cx, &[a, b]);
        }
    }
    cx.exhaustive.push("decode of all byte strings of length <= 2".into());
    let edge: Vec<u8> = vec![0, 1, 7, 8, 0x0f, 0x10, 0x7f, 0x80, 0xf0, 0xff];
    if cx.tier_thorough {
        for a in 0..=255u8 {
            for b in 0..=255u8 {
                for &c in &[0u8, 1, 7, 8, 9, 0x0f, 0x10, 0x80, 0xf7, 0xf8, 0xff] {
                    do_dec(cx, &[a, b, c]);
                }
            }
        }
    } else {
        for a in 0..=255u8 {
            for &b in &edge {
                for c in 0..=255u8 {
                    if c % 16 < 2 || c % 16 > 13 || c == 0x88 {
                        do_dec(cx, &[a, b, c]);
                    }
                }
            }
        }
    }
    for n in 4..=6usize {
        for _ in 0..200 {
            let v = cx.rng.bytes(n);
            do_dec(cx, &v);
        }
        do_dec(cx, &vec![0u8; n]);
    }

    // ---- construction from a byte size
    let nums: Vec<usize> = vec![0, 1, 2, 4095, 4096, 4097, 65534, 65535, 65536, 65537, 1 << 20, usize::MAX];
    // block numbers and sizes whose LOW bits look valid while high bits are set (a narrowing
    // conversion or a shift that drops high bits would accept them)
    for k in [16u32, 17, 20, 28, 31, 32, 33, 48, 59, 60, 61, 62, 63] {
        for j in [0usize, 1, 7, 4095, 65535] {
            let num = (1usize << k).wrapping_add(j);
            for size in [16usize, 64, 1024] {
                do_new(cx, num, j % 2 == 0, size);
            }
        }
    }
    for k in 12..usize::BITS {
        for j in [1usize, 15, 16, 17, 1024, 2048, 4095] {
            let size = (1usize << k).wrapping_add(j);
            do_new(cx, 0, false, size);
            do_new(cx, 5, true, size);
        }
    }
    for &num in &nums {
        for size in 0..=8200usize {
            do_new(cx, num, size % 2 == 1, size);
        }
        for k in 0..usize::BITS {
            let p = 1usize << k;
            do_new(cx, num, false, p);
            do_new(cx, num, true, p.wrapping_sub(1));
            do_new(cx, num, true, p + 1);
        }
        do_new(cx, num, false, usize::MAX);
    }
    let sizes: Vec<usize> = vec![0, 1, 15, 16, 17, 31, 32, 33, 1023, 1024, 1025, 2047, 2048, 4095, 4096];
    let top = if cx.tier_thorough { 65540 } else { 4100 };
    for num in 0..=top {
        for &size in &sizes {
            do_new(cx, num, num % 2 == 0, size);
        }
    }
    cx.exhaustive.push(format!("construction for num in {:?} x every size 0..8200 and all powers of two", nums));
}
