//! Domain RESP: `CoapResponse::new`, `CoapRequest::from_packet`, `apply_from_error` – C07.
//!   RESP new <pkt>                      -> none | some <dump> | panic
//!   RESP err <code|none> <msghex> <pkt> -> <bool> <dump|none> | panic
use crate::pkt::{dump, CodeSpec, PktSpec};
use crate::tbl::header_first_byte;
use crate::{guarded, hex, Ctx, Rng};
use coap_lite::error::HandlingError;
use coap_lite::{CoapRequest, CoapResponse, MessageClass, Packet, ResponseType};

thread_local! {
    static PREPARED: std::cell::Cell<bool> = std::cell::Cell::new(false);
}

fn flat(p: &Packet) -> Vec<(u16, Vec<u8>)> {
    let mut o = vec![];
    for (n, l) in p.options() {
        for v in l.iter() {
            o.push((*n, v.clone()));
        }
    }
    o
}

fn check_new(cx: &mut Ctx, line: &str, spec: &PktSpec, r: &Option<Option<Packet>>) {
    if spec.tok.len() > 15 {
        return; // building the request itself panics (documented assertion)
    }
    let typ = (spec.vtt >> 4) & 3;
    match r {
        None => cx.oracle_fail("C07", line, "preparing a response panicked"),
        Some(None) => {
            if typ < 2 {
                cx.oracle_fail("C07", line, "no response prepared for a CON/NON request");
            }
        }
        Some(Some(q)) => {
            if typ >= 2 {
                cx.oracle_fail("C07", line, "response prepared for an ACK/RST message");
                return;
            }
            let want_vtt = 0x40 | (if typ == 0 { 2u8 } else { 1u8 }) << 4 | (spec.vtt & 15);
            let ok = header_first_byte(&q.header) == want_vtt
                && (spec.vtt & 15) as usize == spec.tok.len()
                && q.header.message_id == spec.mid
                && q.get_token() == &spec.tok[..]
                && u8::from(q.header.code) == 0x45
                && flat(q).is_empty()
                && q.options().len() == 0
                && q.payload.is_empty();
            // when the request's TKL nibble disagrees with its token the response follows the token
            let ok2 = header_first_byte(&q.header) == (0x40 | (if typ == 0 { 2u8 } else { 1u8 }) << 4 | spec.tok.len() as u8)
                && q.header.message_id == spec.mid
                && q.get_token() == &spec.tok[..]
                && u8::from(q.header.code) == 0x45
                && q.options().len() == 0
                && q.payload.is_empty();
            if !(ok || ok2) {
                cx.oracle_fail("C07", line, &format!("prepared response is not correlated with the request: {}", dump(q)));
            }
        }
    }
}

pub fn case_new(cx: &mut Ctx, spec: &PktSpec) {
    let line = format!("RESP new {}", spec.line());
    let r = guarded(|| {
        let p = spec.build();
        CoapResponse::new(&p).map(|r| r.message)
    });
    let s = match &r {
        None => "panic".to_string(),
        Some(None) => "none".to_string(),
        Some(Some(q)) => format!("some {}", dump(q)),
    };
    cx.case(&line, &s);
    cx.nontrivial(&line);
    check_new(cx, &line, spec, &r);
}

#[derive(Clone, Debug)]
pub enum Tweak {
    Mid(u16),
    Tok(Vec<u8>),
    Typ(u8),
    ReqMid(u16),
    ReqTok(Vec<u8>),
    /// `clear_option(n)` on the reply: leaves an emptied entry behind
    Clr(u16),
    /// the prepared reply is gone when the error is applied (`response.take()`, or a request object
    /// that was not built by `from_packet`): there is nothing to apply the error to
    NoResp,
    /// the application already gave the reply a status (any code byte) …
    Code(u8),
    /// … and a body, before the error is applied (e.g. an earlier error, or a half-built answer)
    Pay(Vec<u8>),
}

fn case_err(cx: &mut Ctx, spec: &PktSpec, code: Option<u8>, msg: &[u8], pre: &[(u16, Vec<u8>)]) {
    case_err_tweaked(cx, spec, code, msg, pre, &[])
}

pub fn case_err_tweaked(cx: &mut Ctx, spec: &PktSpec, code: Option<u8>, msg: &[u8], pre: &[(u16, Vec<u8>)], tweaks: &[Tweak]) {
    // `pre`: options the application already put on the reply; `tweaks`: changes made to the
    // reply / the request between from_packet and apply_from_error
    let mut parts: Vec<String> = pre.iter().map(|(n, v)| format!("{}:{}", n, hex(v))).collect();
    for t in tweaks {
        parts.push(match t {
            Tweak::Mid(m) => format!("mid={}", m),
            Tweak::Tok(t) => format!("tok={}", hex(t)),
            Tweak::Typ(t) => format!("typ={}", t),
            Tweak::ReqMid(m) => format!("rmid={}", m),
            Tweak::ReqTok(t) => format!("rtok={}", hex(t)),
            Tweak::Clr(n) => format!("clr={}", n),
            Tweak::NoResp => "noresp".to_string(),
            Tweak::Code(c) => format!("code={}", c),
            Tweak::Pay(p) => format!("pay={}", hex(p)),
        });
    }
    let pretok = parts.join(",");
    let line = format!(
        "RESP err {} {} {} {}",
        code.map(|c| c.to_string()).unwrap_or("none".into()),
        hex(msg),
        if pretok.is_empty() { "_".to_string() } else { pretok },
        spec.line()
    );
    let msg_s = String::from_utf8_lossy(msg).to_string();
    let r = guarded(|| {
        let p = spec.build();
        let mut req: CoapRequest<u8> = CoapRequest::from_packet(p, 7);
        if let Some(resp) = req.response.as_mut() {
            for (n, v) in pre {
                resp.message.add_option(coap_lite::CoapOption::from(*n), v.clone());
            }
            for t in tweaks {
                match t {
                    Tweak::Mid(m) => resp.message.header.message_id = *m,
                    Tweak::Tok(t) => resp.message.set_token(t.clone()),
                    Tweak::Typ(t) => resp.message.header.set_type(crate::tbl::mtype(*t as u64)),
                    Tweak::Clr(n) => resp.message.clear_option(coap_lite::CoapOption::from(*n)),
                    Tweak::Code(c) => resp.message.header.code = MessageClass::from(*c),
                    Tweak::Pay(p) => resp.message.payload = p.clone(),
                    _ => {}
                }
            }
        }
        for t in tweaks {
            match t {
                Tweak::ReqMid(m) => req.message.header.message_id = *m,
                Tweak::ReqTok(t) => req.message.set_token(t.clone()),
                Tweak::NoResp => req.response = None,
                _ => {}
            }
        }
        PREPARED.with(|p| p.set(req.response.is_some()));
        let before = req.response.clone();
        let e = match code {
            None => HandlingError::not_handled(),
            Some(c) => match MessageClass::from(c) {
                MessageClass::Response(rt) => HandlingError::with_code(rt, msg_s.clone()),
                _ => HandlingError::with_code(ResponseType::UnKnown, msg_s.clone()),
            },
        };
        let ok = req.apply_from_error(e);
        (ok, before, req.response)
    });
    match &r {
        None => {
            cx.case(&line, "panic");
            if spec.tok.len() <= 15 {
                cx.oracle_fail("C07", &line, "apply_from_error panicked");
            }
        }
        Some((ok, before, after)) => {
            cx.case(&line, &format!("{} {}", ok, after.as_ref().map(|a| dump(&a.message)).unwrap_or("none".into())));
            cx.nontrivial(&line);
            // from_packet prepares a reply for every Confirmable / Non-confirmable message, whatever its code,
            // token, options or payload (and none for ACK / RST)
            let typ = (spec.vtt >> 4) & 3;
            let prepared = PREPARED.with(|p| p.get());
            if spec.tok.len() <= 15 && !tweaks.iter().any(|t| matches!(t, Tweak::NoResp)) && (typ < 2) != prepared {
                cx.oracle_fail("C07", &line, &format!("from_packet on a message of type {} (code {:?}, {} token bytes, {} payload bytes): reply prepared = {}", typ, spec.code, spec.tok.len(), spec.payload.len(), prepared));
            }
            let expect_ok = before.is_some() && code.is_some();
            if *ok != expect_ok {
                cx.oracle_fail("C07", &line, &format!("apply_from_error returned {} (response present: {}, code present: {})", ok, before.is_some(), code.is_some()));
            }
            match (before, after) {
                (Some(b), Some(a)) => {
                    let b = &b.message;
                    let a = &a.message;
                    let corr = header_first_byte(&a.header) == header_first_byte(&b.header) && a.header.message_id == b.header.message_id && a.get_token() == b.get_token();
                    if !corr {
                        cx.oracle_fail("C07", &line, "turning an error into a reply changed type/message id/token");
                    }
                    if expect_ok {
                        let want_code = match MessageClass::from(code.unwrap()) {
                            MessageClass::Response(_) => code.unwrap(),
                            _ => 0xFF,
                        };
                        let others_same = flat(a).into_iter().filter(|(n, _)| *n != 12).collect::<Vec<_>>() == flat(b).into_iter().filter(|(n, _)| *n != 12).collect::<Vec<_>>();
                        let cf = a.get_option(coap_lite::CoapOption::ContentFormat).map(|l| l.iter().cloned().collect::<Vec<_>>());
                        if u8::from(a.header.code) != want_code || a.payload != msg_s.as_bytes() || !others_same || cf != Some(vec![vec![]]) {
                            cx.oracle_fail("C07", &line, &format!("error reply has wrong code/payload/content-format or touched other options: {}", dump(a)));
                        }
                    } else if a != b {
                        cx.oracle_fail("C07", &line, "a code-less error modified the prepared reply");
                    }
                }
                (None, None) => {}
                _ => cx.oracle_fail("C07", &line, "response appeared/disappeared"),
            }
        }
    }
}

pub fn run(cx: &mut Ctx) {
    let thorough = cx.tier_thorough;
    let mut rng = Rng(cx.seed ^ 0x52455350);
    let mids: Vec<u16> = if thorough { (0..=65535u16).collect() } else { vec![0, 1, 255, 256, 0x1234, 65534, 65535] };
    // all 4 types x 4 versions x tkl 0..8 x mids
    for ver in 0..4u8 {
        for typ in 0..4u8 {
            for tkl in 0..=8usize {
                for &mid in &mids {
                    if thorough && !(tkl == 0 || tkl == 8 || mid % 4099 == 0) && mid > 300 && mid < 65000 {
                        continue;
                    }
                    let spec = PktSpec {
                        vtt: ver << 6 | typ << 4 | tkl as u8,
                        code: CodeSpec::Byte(*rng.pick(&[0u8, 1, 2, 3, 4, 0x45, 0x84, 0xFF])),
                        mid,
                        tok: rng.bytes(tkl),
                        opts: if rng.chance(1, 2) { vec![(11, b"x".to_vec()), (60, vec![1, 2])] } else { vec![] },
                        payload: { let n = *rng.pick(&[0usize, 0, 3, 20]); rng.bytes(n) },
                    };
                    case_new(cx, &spec);
                }
            }
        }
    }
    cx.exhaustive.push(format!("4 versions x 4 types x token length 0..8 x {} message ids", mids.len()));
    // all first bytes incl. inconsistent TKL nibble, long tokens
    for vtt in 0..=255u8 {
        for toklen in [(vtt & 15) as usize, 0, 9, 15, 16] {
            let spec = PktSpec { vtt, code: CodeSpec::Byte(1), mid: 77, tok: rng.bytes(toklen), opts: vec![], payload: vec![1] };
            case_new(cx, &spec);
        }
    }
    // every registered option on the REQUEST, with every one-byte value class and a few others, for all
    // four message types: whether (and what) reply is prepared depends on the type alone
    {
        let reg = crate::tbl::load_registry();
        let nums: Vec<u16> = reg.tables.get("options").map(|t| t.keys().map(|k| *k as u16).collect()).unwrap_or_default();
        for &n in &nums {
            let mut vals: Vec<Vec<u8>> = vec![vec![], vec![0, 2], vec![0x1a, 0x00], b"abc".to_vec()];
            for b in (0u8..=31).chain([0x40, 0x7f, 0x80, 0xfe, 0xff]) {
                vals.push(vec![b]);
            }
            for v in &vals {
                for typ in 0..4u8 {
                    let spec = PktSpec { vtt: 0x40 | typ << 4 | 2, code: CodeSpec::Byte(if n % 2 == 0 { 1 } else { 2 }), mid: 0x5151, tok: vec![0xa1, 0xa2], opts: vec![(n, v.clone())], payload: vec![] };
                    case_new(cx, &spec);
                }
            }
        }
    }
    // random mids
    let n = if thorough { 20000 } else { 3000 };
    for _ in 0..n {
        let tkl = rng.below(9) as usize;
        let spec = PktSpec { vtt: (rng.below(16) as u8) << 4 | tkl as u8, code: CodeSpec::Byte(rng.below(256) as u8), mid: rng.below(65536) as u16, tok: rng.bytes(tkl), opts: vec![(rng.below(300) as u16, rng.bytes(3))], payload: rng.bytes(5) };
        case_new(cx, &spec);
    }
    // error application: every response code byte and none; all four types; pre-existing reply options
    let msgs: [&[u8]; 4] = [b"", b"Not found", b"e", "f\u{e9}\u{20ac}".as_bytes()];
    for typ in 0..4u8 {
        for code in (0..=255u16).map(|c| Some(c as u8)).chain(std::iter::once(None)) {
            for (i, m) in msgs.iter().enumerate() {
                let tkl = (i * 3) % 9;
                let spec = PktSpec { vtt: 0x40 | typ << 4 | tkl as u8, code: CodeSpec::Byte(2), mid: 1000 + i as u16, tok: rng.bytes(tkl), opts: vec![(11, b"r".to_vec())], payload: b"body".to_vec() };
                let pre: Vec<(u16, Vec<u8>)> = match i {
                    0 => vec![],
                    1 => vec![(12, vec![50])],
                    2 => vec![(12, vec![50]), (12, vec![60]), (14, vec![60])],
                    _ => vec![(4, vec![1, 2]), (27, vec![0x0e])],
                };
                case_err(cx, &spec, code, m, &pre);
            }
        }
    }
    cx.exhaustive.push("apply_from_error over every code byte / no code x 4 message types x pre-set reply options".into());
    // every registered option (typed values of a few magnitudes) already on the reply when the error is
    // applied: only the code, the payload and the Content-Format may change
    {
        let reg = crate::tbl::load_registry();
        let nums: Vec<u16> = reg.tables.get("options").map(|t| t.keys().map(|k| *k as u16).collect()).unwrap_or_default();
        for &n in &nums {
            for val in [vec![], vec![7u8], vec![0x01, 0x00], b"txt".to_vec()] {
                for code in [Some(0x84u8), Some(0x80), Some(0xA0), Some(0xA3), Some(0x45), Some(0x5f), None] {
                    for typ in [0u8, 1] {
                        let spec = PktSpec { vtt: 0x40 | typ << 4 | 1, code: CodeSpec::Byte(1), mid: 0x4444, tok: vec![0xdd], opts: vec![(11, b"r".to_vec()), (6, vec![])], payload: vec![] };
                        case_err(cx, &spec, code, b"failed", &[(n, val.clone())]);
                        if n != 12 {
                            case_err(cx, &spec, code, b"failed", &[(n, val.clone()), (12, vec![50])]);
                        }
                    }
                }
            }
        }
    }
    // the reply / the request changed between from_packet and apply_from_error (separate response,
    // re-used request object), and pre-set Content-Format values that are not decodable
    let tweak_sets: Vec<Vec<Tweak>> = vec![
        vec![Tweak::Mid(0x7777)],
        vec![Tweak::Tok(vec![9, 9, 9])],
        vec![Tweak::Typ(0), Tweak::Mid(4242)],
        vec![Tweak::ReqMid(0x0101)],
        vec![Tweak::ReqTok(vec![5])],
        vec![Tweak::Mid(1), Tweak::Tok(vec![]), Tweak::ReqMid(2), Tweak::ReqTok(vec![1, 2, 3, 4, 5, 6, 7, 8])],
    ];
    // emptied entries on the reply (an option set and then withdrawn with clear_option) before the error is applied
    for typ in 0..2u8 {
        for code in [Some(0x84u8), Some(0xA0), None] {
            for pre in [vec![(12u16, vec![50u8])], vec![(12, vec![50]), (12, vec![60])], vec![(4, vec![1]), (12, vec![0])], vec![(14, vec![60])], vec![]] {
                for clr in [vec![12u16], vec![4], vec![12, 14], vec![60]] {
                    let spec = PktSpec { vtt: 0x40 | typ << 4 | 1, code: CodeSpec::Byte(2), mid: 0x2222, tok: vec![0xcc], opts: vec![(11, b"r".to_vec())], payload: vec![] };
                    let tw: Vec<Tweak> = clr.iter().map(|n| Tweak::Clr(*n)).collect();
                    case_err_tweaked(cx, &spec, code, b"gone", &pre, &tw);
                }
            }
        }
    }
    // the prepared reply is gone (taken by the transport, or a request object not made by from_packet)
    // when the error arrives: failure is reported and no reply materialises, whatever the message type
    for typ in 0..4u8 {
        for code in [Some(0x84u8), Some(0x45), Some(0xA0), Some(0x5f), None] {
            for tkl in [0usize, 2, 8] {
                let spec = PktSpec { vtt: 0x40 | typ << 4 | tkl as u8, code: CodeSpec::Byte(1), mid: 0x4444, tok: vec![0xab; tkl], opts: vec![(11, b"r".to_vec())], payload: vec![] };
                case_err_tweaked(cx, &spec, code, b"late", &[], &[Tweak::NoResp]);
                case_err_tweaked(cx, &spec, code, b"late", &[(12, vec![50])], &[Tweak::ReqMid(7), Tweak::NoResp]);
            }
        }
    }
    // from_packet on every kind of message: any code (0.00 Empty included) x type x token / option / payload
    for typ in 0..4u8 {
        for codeb in [0u8, 1, 2, 0x45, 0x84, 0x1f, 0xff] {
            for (tok, opts, pay) in [(vec![], vec![], vec![]), (vec![7u8], vec![], vec![]), (vec![], vec![(11u16, b"p".to_vec())], vec![]), (vec![], vec![], vec![1u8, 2]), (vec![1, 2, 3, 4, 5, 6, 7, 8], vec![(6u16, vec![]), (11, b"p".to_vec())], b"x".to_vec())] {
                let spec = PktSpec { vtt: 0x40 | typ << 4 | tok.len() as u8, code: CodeSpec::Byte(codeb), mid: 0x6666, tok: tok.clone(), opts: opts.clone(), payload: pay.clone() };
                case_err(cx, &spec, Some(0x84), b"e", &[]);
            }
        }
    }
    // the reply already has a status and / or a body when the error is applied (a second error after a
    // first one, an answer the application had started to build): the new error replaces both
    for typ in 0..2u8 {
        for code in [Some(0x84u8), Some(0xA0), Some(0x45), None] {
            for pre_code in [0x45u8, 0x84, 0xA0, 0xA3, 0x5f, 0x00] {
                for pay in [vec![], b"first failure".to_vec()] {
                    for msg in [&b""[..], &b"second"[..]] {
                        let spec = PktSpec { vtt: 0x40 | typ << 4 | 1, code: CodeSpec::Byte(1), mid: 0x5555, tok: vec![0x31], opts: vec![(11, b"r".to_vec())], payload: vec![] };
                        case_err_tweaked(cx, &spec, code, msg, &[], &[Tweak::Code(pre_code), Tweak::Pay(pay.clone())]);
                        case_err_tweaked(cx, &spec, code, msg, &[(12, vec![0])], &[Tweak::Code(pre_code), Tweak::Pay(pay.clone())]);
                    }
                }
            }
        }
    }
    let cf_pre: Vec<Vec<(u16, Vec<u8>)>> = vec![vec![], vec![(12, vec![0xfd, 0xe8])], vec![(12, vec![1, 2, 3])], vec![(12, vec![0xfd, 0xe8]), (12, vec![50])], vec![(12, vec![]), (12, vec![0xff, 0xff])]];
    for typ in 0..2u8 {
        for code in [Some(0x84u8), Some(0x45), Some(0xA0), None] {
            for tw in &tweak_sets {
                for pre in &cf_pre {
                    let spec = PktSpec { vtt: 0x40 | typ << 4 | 2, code: CodeSpec::Byte(1), mid: 0x3333, tok: vec![0xaa, 0xbb], opts: vec![(11, b"r".to_vec())], payload: vec![] };
                    case_err_tweaked(cx, &spec, code, b"oops", pre, tw);
                }
            }
        }
    }
}
