//! Domain BLK: the RFC 7959 block handler under a deterministic clock – C08..C12, C20.
//!   BLK sess <M> <ttl_ms> <op>|<op>|...   -> per-op results joined by " | "
//! ops:  tick <ms>
//!       req <ep> <pkt>            intercept_request on CoapRequest::from_packet(pkt, ep)
//!       app <code> <n> (<num> <val>)*n <payload>   application reply on the last request, then intercept_response
//!       peek <ep> <pkt>           hook: non-touching view of the state cached for that request's key
//! results:  R <outcome> <resp dump|none> P<request payload> K<peek>
//!           A <outcome> <resp dump|none> K<peek>
//!           K<peek>   ;  T
//! outcome: ok 0|1 ; herr <code byte|none> ; panic
use crate::pkt::{dump, parse_val, val_token, CodeSpec, PktSpec};
use crate::{guarded, hex, Ctx, Rng};
use coap_lite::block_handler::{BlockHandler, BlockHandlerConfig, BlockValue};
use coap_lite::error::HandlingError;
use coap_lite::{CoapOption, CoapRequest, MessageClass, Packet, ResponseType};
use sn_fake_clock::FakeClock;
use std::alloc::{GlobalAlloc, Layout, System};
use std::convert::TryFrom;
use std::sync::atomic::{AtomicUsize, Ordering};
use std::time::Duration;

// ---- counting allocator (reclamation clause of C20 is observed, not modelled)
pub struct Counting;
pub static LIVE: AtomicUsize = AtomicUsize::new(0);
unsafe impl GlobalAlloc for Counting {
    unsafe fn alloc(&self, l: Layout) -> *mut u8 {
        LIVE.fetch_add(l.size(), Ordering::Relaxed);
        System.alloc(l)
    }
    unsafe fn dealloc(&self, p: *mut u8, l: Layout) {
        LIVE.fetch_sub(l.size(), Ordering::Relaxed);
        System.dealloc(p, l)
    }
}

#[derive(Clone, Debug)]
pub enum Op {
    Tick(u64),
    Req(u8, PktSpec),
    App(u8, Vec<(u16, Vec<u8>)>, Vec<u8>),
    Peek(u8, PktSpec),
    /// exchange the pending request (the one `App` answers) with the one held aside, so that
    /// two exchanges can overlap: req A | swap | req B | swap | app A | swap | app B
    Swap,
    /// `clear_option(n)` on the pending reply: leaves emptied entries behind
    AppClr(Vec<u16>),
}

impl Op {
    fn token(&self) -> String {
        match self {
            Op::Tick(ms) => format!("tick {}", ms),
            Op::Req(ep, s) => format!("req {} {}", ep, s.line()),
            Op::App(code, opts, pl) => {
                let mut s = format!("app {} {}", code, opts.len());
                for (n, v) in opts {
                    s.push_str(&format!(" {} {}", n, val_token(v)));
                }
                s.push(' ');
                s.push_str(&val_token(pl));
                s
            }
            Op::Peek(ep, s) => format!("peek {} {}", ep, s.line()),
            Op::Swap => "swap".to_string(),
            Op::AppClr(ns) => format!("appclr {}", ns.iter().map(|n| n.to_string()).collect::<Vec<_>>().join(",")),
        }
    }
}

#[derive(Clone, Debug, PartialEq)]
pub enum Outcome {
    Ok(bool),
    Herr(Option<u8>),
    Panic,
}

impl Outcome {
    fn token(&self) -> String {
        match self {
            Outcome::Ok(b) => format!("ok {}", *b as u8),
            Outcome::Herr(Some(c)) => format!("herr {}", c),
            Outcome::Herr(None) => "herr none".into(),
            Outcome::Panic => "panic".into(),
        }
    }
}

#[derive(Clone, Debug, PartialEq)]
pub struct Peek {
    pub buf: Option<usize>,
    pub resp: bool,
    pub b2: Option<(u16, bool, u8)>,
    pub szx: Option<u8>,
}

fn peek_token(p: &Option<Peek>) -> String {
    match p {
        None => "Knone".into(),
        Some(p) => format!(
            "Kbuf={},resp={},b2={},szx={}",
            p.buf.map(|x| x.to_string()).unwrap_or("n".into()),
            p.resp as u8,
            p.b2.map(|(n, m, s)| format!("{}/{}/{}", n, m as u8, s)).unwrap_or("n".into()),
            p.szx.map(|x| x.to_string()).unwrap_or("n".into())
        ),
    }
}

#[derive(Clone, Debug)]
pub struct StepOut {
    pub outcome: Outcome,
    pub resp: Option<Packet>,
    pub req_payload: Vec<u8>,
    pub peek: Option<Peek>,
    pub text: String,
}

pub struct Session {
    pub m: usize,
    pub ttl: u64,
    handler: BlockHandler<u8>,
    last: Option<CoapRequest<u8>>,
    held: Option<CoapRequest<u8>>,
    pub ops: Vec<Op>,
    pub outs: Vec<StepOut>,
}

fn to_outcome(r: Option<Result<bool, HandlingError>>) -> Outcome {
    match r {
        None => Outcome::Panic,
        Some(Ok(b)) => Outcome::Ok(b),
        Some(Err(e)) => Outcome::Herr(e.code.map(|c| u8::from(MessageClass::Response(c)))),
    }
}

impl Session {
    pub fn new(m: usize, ttl: u64) -> Session {
        FakeClock::set_time(0);
        Session {
            m,
            ttl,
            handler: BlockHandler::new(BlockHandlerConfig { max_total_message_size: m, cache_expiry_duration: Duration::from_millis(ttl) }),
            last: None,
            held: None,
            ops: vec![],
            outs: vec![],
        }
    }
    fn peek_of(&self, req: &CoapRequest<u8>) -> Option<Peek> {
        self.handler.verif_peek(req).map(|(buf, resp, b2, szx)| Peek { buf, resp, b2: b2.map(|b| (b.num, b.more, b.size_exponent)), szx })
    }
    pub fn step(&mut self, op: Op) -> StepOut {
        let out = match &op {
            Op::Tick(ms) => {
                FakeClock::advance_time(*ms);
                StepOut { outcome: Outcome::Ok(false), resp: None, req_payload: vec![], peek: None, text: "T".into() }
            }
            Op::Req(ep, spec) => {
                // endpoint 255 stands for a request object without a source (`source: None`)
                let built = guarded(|| {
                    let mut r = CoapRequest::from_packet(spec.build(), *ep);
                    if *ep == 255 {
                        r.source = None;
                    }
                    r
                });
                match built {
                    None => {
                        self.last = None;
                        StepOut { outcome: Outcome::Panic, resp: None, req_payload: vec![], peek: None, text: "R panic none P- Knone".into() }
                    }
                    Some(mut req) => {
                        let h = &mut self.handler;
                        let r = guarded(|| h.intercept_request(&mut req));
                        let outcome = to_outcome(r);
                        let peek = guarded(|| self.peek_of(&req)).unwrap_or(None);
                        let resp = req.response.as_ref().map(|r| r.message.clone());
                        let text = format!(
                            "R {} {} P{} {}",
                            outcome.token(),
                            resp.as_ref().map(|p| dump(p)).unwrap_or("none".into()),
                            val_token(&req.message.payload),
                            peek_token(&peek)
                        );
                        let so = StepOut { outcome, resp, req_payload: req.message.payload.clone(), peek, text };
                        self.last = Some(req);
                        so
                    }
                }
            }
            Op::App(code, opts, payload) => match self.last.take() {
                None => StepOut { outcome: Outcome::Ok(false), resp: None, req_payload: vec![], peek: None, text: "A skip".into() },
                Some(mut req) => {
                    if let Some(resp) = req.response.as_mut() {
                        resp.message.header.code = MessageClass::from(*code);
                        for (n, v) in opts {
                            resp.message.add_option(CoapOption::from(*n), v.clone());
                        }
                        resp.message.payload = payload.clone();
                    }
                    let h = &mut self.handler;
                    let r = guarded(|| h.intercept_response(&mut req));
                    let outcome = to_outcome(r);
                    let peek = guarded(|| self.peek_of(&req)).unwrap_or(None);
                    let resp = req.response.as_ref().map(|r| r.message.clone());
                    let text = format!("A {} {} {}", outcome.token(), resp.as_ref().map(|p| dump(p)).unwrap_or("none".into()), peek_token(&peek));
                    let so = StepOut { outcome, resp, req_payload: req.message.payload.clone(), peek, text };
                    self.last = Some(req);
                    so
                }
            },
            Op::Swap => {
                std::mem::swap(&mut self.last, &mut self.held);
                StepOut { outcome: Outcome::Ok(false), resp: None, req_payload: vec![], peek: None, text: "S".into() }
            }
            Op::AppClr(ns) => {
                if let Some(resp) = self.last.as_mut().and_then(|r| r.response.as_mut()) {
                    for n in ns {
                        resp.message.clear_option(CoapOption::from(*n));
                    }
                }
                StepOut { outcome: Outcome::Ok(false), resp: None, req_payload: vec![], peek: None, text: "C".into() }
            }
            Op::Peek(ep, spec) => {
                let built = guarded(|| {
                    let mut r = CoapRequest::from_packet(spec.build(), *ep);
                    if *ep == 255 {
                        r.source = None;
                    }
                    r
                });
                let peek = built.and_then(|req| guarded(|| self.peek_of(&req)).unwrap_or(None));
                StepOut { outcome: Outcome::Ok(false), resp: None, req_payload: vec![], peek: peek.clone(), text: peek_token(&peek) }
            }
        };
        self.ops.push(op);
        self.outs.push(out.clone());
        out
    }
    pub fn line(&self) -> String {
        format!("BLK sess {} {} {}", self.m, self.ttl, self.ops.iter().map(|o| o.token()).collect::<Vec<_>>().join("|"))
    }
    pub fn result(&self) -> String {
        self.outs.iter().map(|o| o.text.clone()).collect::<Vec<_>>().join(" | ")
    }
    pub fn emit(&self, cx: &mut Ctx) -> String {
        let l = self.line();
        cx.case(&l, &self.result());
        cx.nontrivial(&l);
        l
    }
}

// ------------------------------------------------------------------ request builders

/// when non-zero, the client writes its block option values at this fixed width (leading zero bytes,
/// at most 3 bytes in all): RFC 7252 §3.2 lets a sender do so and a recipient must accept it
pub static BV_WIDTH: std::sync::atomic::AtomicUsize = std::sync::atomic::AtomicUsize::new(0);

pub fn bv_bytes(num: usize, more: bool, szx: u8) -> Vec<u8> {
    let scalar = (num as u64) << 4 | (more as u64) << 3 | szx as u64;
    let mut out = vec![];
    let mut v = scalar;
    while v > 0 {
        out.push((v & 0xff) as u8);
        v >>= 8;
    }
    out.reverse();
    let w = BV_WIDTH.load(std::sync::atomic::Ordering::Relaxed).min(3);
    while out.len() < w {
        out.insert(0, 0);
    }
    out
}

pub fn parse_bv(b: &[u8]) -> Option<(usize, bool, u8)> {
    if b.len() > 3 {
        return None;
    }
    let v = b.iter().fold(0usize, |a, &x| a << 8 | x as usize);
    Some((v >> 4, (v >> 3) & 1 == 1, (v & 7) as u8))
}

#[derive(Clone, Debug)]
pub struct ReqShape {
    pub typ: u8,
    pub code: u8,
    pub tok: Vec<u8>,
    pub path: Vec<Vec<u8>>,
    pub extra: Vec<(u16, Vec<u8>)>,
}

impl ReqShape {
    pub fn spec(&self, mid: u16, block1: Option<Vec<u8>>, block2: Option<Vec<u8>>, payload: &[u8]) -> PktSpec {
        let mut opts: Vec<(u16, Vec<u8>)> = self.path.iter().map(|s| (11u16, s.clone())).collect();
        opts.extend(self.extra.iter().cloned());
        if let Some(b) = block2 {
            opts.push((23, b));
        }
        if let Some(b) = block1 {
            opts.push((27, b));
        }
        PktSpec { vtt: 0x40 | self.typ << 4 | self.tok.len() as u8, code: CodeSpec::Byte(self.code), mid, tok: self.tok.clone(), opts, payload: payload.to_vec() }
    }
}

fn first_opt(p: &Packet, n: u16) -> Option<Vec<u8>> {
    p.get_first_option(CoapOption::from(n)).cloned()
}

fn other_opts(p: &Packet, skip: &[u16]) -> Vec<(u16, Vec<u8>)> {
    let mut o = vec![];
    for (n, l) in p.options() {
        if skip.contains(n) {
            continue;
        }
        for v in l.iter() {
            o.push((*n, v.clone()));
        }
    }
    o
}

fn overhead_of(p: &Packet) -> usize {
    let mut q = p.clone();
    q.payload = vec![];
    q.to_bytes_unlimited().map(|b| b.len()).unwrap_or(usize::MAX)
}

fn body_of(rng: &mut Rng, n: usize) -> Vec<u8> {
    let salt = rng.next();
    (0..n).map(|i| ((i as u64).wrapping_mul(31).wrapping_add(salt) % 251) as u8).collect()
}

// ------------------------------------------------------------------ scenario A: Block2 download (C08, C10)

pub struct Download<'a> {
    pub shape: &'a ReqShape,
    pub ep: u8,
    pub m: usize,
    pub body: Vec<u8>,
    pub resp_opts: Vec<(u16, Vec<u8>)>,
    pub first_szx: Option<u8>,
    pub reduce_at: Option<(usize, u8)>, // at block index j switch to smaller szx
    /// tokens of the follow-up requests (cycled); empty = the first request's token. RFC 7959: every
    /// block is its own exchange, the token (and its length) may change
    pub followup_toks: Vec<Vec<u8>>,
}

pub fn run_download(cx: &mut Ctx, d: &Download, sess: &mut Session, check_release: bool) {
    let shape = d.shape;
    let mut mid = 100u16;
    let b2 = d.first_szx.map(|s| bv_bytes(0, false, s));
    let o = sess.step(Op::Req(d.ep, shape.spec(mid, None, b2, &[])));
    let mut problems: Vec<(&'static str, String)> = vec![];
    let mut got: Vec<u8> = vec![];
    if o.outcome != Outcome::Ok(false) {
        problems.push(("C08", format!("first request of a transfer was not passed to the application: {}", o.outcome.token())));
    }
    // the application's reply
    let a = sess.step(Op::App(0x45, d.resp_opts.clone(), d.body.clone()));
    // overhead of the reply as the application produced it (request's mid/token, app options, no payload, no Block2)
    let ov = {
        let mut p = Packet::new();
        p.header.set_type(if shape.typ == 0 { coap_lite::MessageType::Acknowledgement } else { coap_lite::MessageType::NonConfirmable });
        p.set_token(shape.tok.clone());
        for (n, v) in &d.resp_opts {
            p.add_option(CoapOption::from(*n), v.clone());
        }
        overhead_of(&p)
    };
    // the budget must also leave room for the request itself (its overhead is measured the same way)
    let ovq = overhead_of(&shape.spec(mid, None, Some(bv_bytes(4095, false, 6)), &[]).build());
    let valid = d.m >= ov + 28 && d.m >= ovq + 28;
    if !valid {
        cx.stat("download_budget_below_overhead");
        sess.emit(cx);
        return;
    }
    let in_c10_range = d.m >= ov + 28 && d.m <= 1280;
    let mut resp = match (&a.outcome, &a.resp) {
        (Outcome::Ok(_), Some(r)) => r.clone(),
        (oc, _) => {
            if d.m >= ov + 28 {
                problems.push(("C08", format!("intercept_response failed: {}", oc.token())));
            }
            report(cx, sess, problems);
            return;
        }
    };
    let fragmented = a.outcome == Outcome::Ok(true);
    let mut client_szx: Option<u8> = d.first_szx;
    let mut offset = 0usize;
    let mut blocks = 0usize;
    let mut cur_size_cap: Option<usize> = d.first_szx.map(|s| 16usize << s);
    let mut cur_tok: Vec<u8> = shape.tok.clone();
    loop {
        // ---- checks on this response
        if resp.header.message_id != mid || resp.get_token() != &cur_tok[..] {
            problems.push(("C12", format!("reply carries mid {} / token {} instead of the request's {} / {}", resp.header.message_id, hex(resp.get_token()), mid, hex(&cur_tok))));
        }
        // the token length in the header is the length of the token that is sent
        if resp.header.get_token_length() as usize != resp.get_token().len() {
            problems.push(("C12", format!("reply header says token length {} but the token has {} bytes", resp.header.get_token_length(), resp.get_token().len())));
        }
        let wire = resp.to_bytes_unlimited();
        let wire_len = wire.as_ref().map(|b| b.len()).unwrap_or(usize::MAX);
        // the client sees the block through the wire: what it decodes must be what the handler built
        match wire.as_ref().ok().map(|b| Packet::from_bytes(b)) {
            Some(Ok(q)) => {
                if q.get_token() != &cur_tok[..] || q.header.message_id != mid || q.payload != resp.payload || other_opts(&q, &[]) != other_opts(&resp, &[]) {
                    problems.push(("C08", format!("the block as the client decodes it from the wire ({}) differs from the reply the handler built ({})", dump(&q), dump(&resp))));
                }
            }
            _ => problems.push(("C08", "the handler's reply does not encode / decode".into())),
        }
        let blk = first_opt(&resp, 23).and_then(|b| parse_bv(&b));
        if in_c10_range && wire_len > d.m {
            problems.push(("C10", format!("message of {} bytes exceeds the budget {}", wire_len, d.m)));
        }
        if other_opts(&resp, &[23]) != {
            let mut so = d.resp_opts.clone();
            so.sort_by_key(|x| x.0);
            so
        } {
            problems.push(("C08", "a block does not repeat the application's other response options".into()));
        }
        match blk {
            None => {
                // unfragmented
                got.extend_from_slice(&resp.payload);
                if fragmented {
                    problems.push(("C08", "fragmented response without Block2 option".into()));
                }
                break;
            }
            Some((num, more, szx)) => {
                let size = 16usize << szx;
                if szx > 6 {
                    problems.push(("C10", format!("block size exponent {} (size {})", szx, size)));
                }
                if let Some(cap) = cur_size_cap {
                    if size > cap {
                        problems.push(("C10", format!("block size {} larger than the client asked for ({})", size, cap)));
                    }
                    if in_c10_range && cap + ov + 32 <= d.m && size != cap && blocks == 0 {
                        problems.push(("C10", format!("client's size {} fits the budget with room to spare but {} was used", cap, size)));
                    }
                }
                if num * size != offset {
                    problems.push(("C08", format!("block number {} x size {} does not match byte offset {}", num, size, offset)));
                }
                if resp.payload.len() > size {
                    problems.push(("C08", format!("block {} carries {} bytes, more than its block size {}", num, resp.payload.len(), size)));
                }
                if more && resp.payload.len() != size {
                    problems.push(("C08", format!("non-final block carries {} bytes, block size is {}", resp.payload.len(), size)));
                }
                got.extend_from_slice(&resp.payload);
                offset += resp.payload.len();
                blocks += 1;
                if !more {
                    break;
                }
                if blocks > 3000 {
                    problems.push(("C08", "transfer does not end".into()));
                    break;
                }
                // next request: same or reduced size
                let mut next_szx = client_szx.unwrap_or(szx).min(szx);
                if let Some((j, s)) = d.reduce_at {
                    if blocks >= j {
                        next_szx = next_szx.min(s);
                    }
                }
                client_szx = Some(next_szx);
                let nsize = 16usize << next_szx;
                cur_size_cap = Some(nsize);
                if offset % nsize != 0 {
                    problems.push(("C08", "client cannot continue at a smaller block size (offset not aligned)".into()));
                    break;
                }
                mid = mid.wrapping_add(1);
                let fshape: ReqShape = if d.followup_toks.is_empty() { shape.clone() } else { ReqShape { tok: d.followup_toks[blocks % d.followup_toks.len()].clone(), ..shape.clone() } };
                cur_tok = fshape.tok.clone();
                let o = sess.step(Op::Req(d.ep, fshape.spec(mid, None, Some(bv_bytes(offset / nsize, false, next_szx)), &[])));
                match (&o.outcome, &o.resp) {
                    (Outcome::Ok(true), Some(r)) => resp = r.clone(),
                    (oc, _) => {
                        problems.push(("C08", format!("follow-up block request was not served from the cache: {}", oc.token())));
                        break;
                    }
                }
            }
        }
    }
    if problems.iter().all(|p| p.0 != "C08") && got != d.body {
        problems.push(("C08", format!("reassembled body has {} bytes and differs from the {}-byte body the application produced", got.len(), d.body.len())));
    }
    if check_release && problems.is_empty() {
        // the entry is released: a fresh request reaches the application again
        let pk = sess.step(Op::Peek(d.ep, shape.spec(0, None, None, &[])));
        if let Some(p) = &pk.peek {
            if p.resp {
                problems.push(("C08", "cached response not released after the final block".into()));
            }
        }
        mid = mid.wrapping_add(1);
        let o = sess.step(Op::Req(d.ep, shape.spec(mid, None, None, &[])));
        if o.outcome != Outcome::Ok(false) {
            problems.push(("C08", "request after a completed transfer did not reach the application".into()));
        } else {
            // … and that second transfer (started WITHOUT a Block2 option) again starts at block 0
            let body2 = body_of(&mut Rng(d.body.len() as u64 + 7), d.body.len() / 2 + 40);
            let a2 = sess.step(Op::App(0x45, vec![], body2.clone()));
            match &a2.resp {
                Some(r) if matches!(a2.outcome, Outcome::Ok(_)) => match first_opt(r, 23).and_then(|b| parse_bv(&b)) {
                    Some((num, _, szx)) => {
                        let size = 16usize << szx;
                        if num != 0 || r.payload != body2[..body2.len().min(size)] {
                            problems.push(("C08", format!("second transfer on the same resource (no Block2 in its first request) starts with block {} instead of block 0", num)));
                        }
                    }
                    None => {
                        if r.payload != body2 {
                            problems.push(("C08", "second transfer: unfragmented reply differs from the body".into()));
                        }
                    }
                },
                _ => problems.push(("C08", format!("second transfer on the same resource failed: {}", a2.outcome.token()))),
            }
        }
    }
    cx.stat(if fragmented { "download_fragmented" } else { "download_unfragmented" });
    report(cx, sess, problems);
}

fn report(cx: &mut Ctx, sess: &Session, problems: Vec<(&'static str, String)>) {
    let line = sess.emit(cx);
    for (p, d) in problems {
        cx.oracle_fail(p, &line, &d);
    }
}

// ------------------------------------------------------------------ scenario B: Block1 upload (C09, C10)

pub struct Upload<'a> {
    pub shape: &'a ReqShape,
    pub ep: u8,
    pub m: usize,
    pub body: Vec<u8>,
    pub szx: u8,
    pub dups: Vec<usize>, // consecutive deliveries per block (cycled)
    pub abandoned: Option<(Vec<u8>, u8, usize)>, // other body, szx, number of blocks delivered before giving up
    pub dup_final: usize,
    pub fresh_tokens: bool, // every delivery is its own exchange with a fresh token (RFC 7959 allows it)
}

pub fn run_upload(cx: &mut Ctx, u: &Upload, sess: &mut Session) {
    let base_shape = u.shape;
    let mut shape_buf = base_shape.clone();
    let mut delivery = 0usize;
    let mut problems: Vec<(&'static str, String)> = vec![];
    let mut mid = 500u16;
    let shape = base_shape;
    if let Some((other, oszx, nblocks)) = &u.abandoned {
        let osize = 16usize << oszx;
        let chunks: Vec<&[u8]> = other.chunks(osize).collect();
        for (i, c) in chunks.iter().enumerate().take(*nblocks) {
            let more = i + 1 < chunks.len();
            if !more {
                break; // never complete the abandoned upload
            }
            mid += 1;
            sess.step(Op::Req(u.ep, shape.spec(mid, Some(bv_bytes(i, true, *oszx)), None, c)));
        }
    }
    let size = 16usize << u.szx;
    let chunks: Vec<Vec<u8>> = if u.body.is_empty() { vec![vec![]] } else { u.body.chunks(size).map(|c| c.to_vec()).collect() };
    let n = chunks.len();
    let mut app_calls = 0usize;
    for (i, c) in chunks.iter().enumerate() {
        let more = i + 1 < n;
        let reps = if more { u.dups[i % u.dups.len()].max(1) } else { 1 + u.dup_final };
        for rep in 0..reps {
            mid += 1;
            delivery += 1;
            if u.fresh_tokens {
                shape_buf.tok = (0..(delivery % 9)).map(|x| (x * 7 + delivery) as u8).collect();
            }
            let shape = &shape_buf;
            let o = sess.step(Op::Req(u.ep, shape.spec(mid, Some(bv_bytes(i, more, u.szx)), None, c)));
            let ov = overhead_of(&shape.spec(mid, Some(bv_bytes(i, more, u.szx)), None, &[]).build());
            let admits = u.m >= ov + 12 + size && u.m <= 1280;
            let b1 = o.resp.as_ref().and_then(|r| first_opt(r, 27)).and_then(|b| parse_bv(&b));
            if more {
                match (&o.outcome, &o.resp) {
                    (Outcome::Ok(true), Some(r)) => {
                        if u8::from(r.header.code) != 0x5F {
                            problems.push(("C09", format!("non-final block {} answered with code {:#x} instead of 2.31", i, u8::from(r.header.code))));
                        }
                        match b1 {
                            Some((num, _, szx)) => {
                                if szx > u.szx {
                                    problems.push(("C09", format!("acknowledged size exponent {} larger than the client's {}", szx, u.szx)));
                                    problems.push(("C10", format!("acknowledged block size exponent {} larger than the client's {}", szx, u.szx)));
                                }
                                if admits && (num != i || szx != u.szx) {
                                    problems.push(("C09", format!("block {} acknowledged as num {} szx {}", i, num, szx)));
                                }
                                // C10: the client's next upload block at the acknowledged size fits the budget
                                let nsz = 16usize << szx;
                                let next = shape.spec(mid, Some(bv_bytes(i + 1, true, szx)), None, &vec![0u8; nsz]).build();
                                let nl = next.to_bytes_unlimited().map(|b| b.len()).unwrap_or(usize::MAX);
                                if u.m >= ov + 28 && u.m <= 1280 && nl > u.m {
                                    problems.push(("C10", format!("next upload block at the acknowledged size {} needs {} bytes, budget is {}", nsz, nl, u.m)));
                                }
                                if szx > 6 {
                                    problems.push(("C10", format!("acknowledged block size exponent {}", szx)));
                                }
                            }
                            None => problems.push(("C09", format!("2.31 for block {} without a Block1 option", i))),
                        }
                        if r.header.message_id != mid || r.get_token() != &shape.tok[..] {
                            problems.push(("C12", "reply does not carry the request's message id / token".into()));
                        }
                    }
                    (oc, _) => {
                        if admits {
                            problems.push(("C09", format!("non-final block {} was not answered 2.31 Continue: {}", i, oc.token())));
                        }
                    }
                }
            } else {
                match &o.outcome {
                    Outcome::Ok(false) => {
                        app_calls += 1;
                        if rep == 0 {
                            if o.req_payload != u.body {
                                problems.push(("C09", format!("application received {} bytes instead of the {}-byte body (first difference at {})", o.req_payload.len(), u.body.len(), o.req_payload.iter().zip(u.body.iter()).position(|(a, b)| a != b).unwrap_or(o.req_payload.len().min(u.body.len())))));
                            }
                            if b1.is_none() {
                                problems.push(("C09", "final block's response lacks the Block1 acknowledgement".into()));
                            }
                        } else {
                            problems.push(("C09", format!("re-delivered final block reached the application again (delivery {} of block {}, {} bytes)", rep + 1, i, o.req_payload.len())));
                        }
                    }
                    oc => {
                        if admits && rep == 0 {
                            problems.push(("C09", format!("final block did not reach the application: {}", oc.token())));
                        }
                    }
                }
            }
        }
    }
    let _ = app_calls;
    report(cx, sess, problems);
}

/// a single Block2 request for an arbitrary block (possibly num >= 1 with nothing cached) and the
/// application's reply: whatever the handler sends must respect budget and client size (C10)
fn run_block2_probe(cx: &mut Ctx, shape: &ReqShape, m: usize, num: usize, szx: u8, body: &[u8]) {
    let mut sess = Session::new(m, 60000);
    let o = sess.step(Op::Req(1, shape.spec(7, None, Some(bv_bytes(num, false, szx)), &[])));
    let mut problems: Vec<(&'static str, String)> = vec![];
    if o.outcome == Outcome::Ok(false) {
        let a = sess.step(Op::App(0x45, vec![], body.to_vec()));
        let ov = {
            let mut p = Packet::new();
            p.header.set_type(if shape.typ == 0 { coap_lite::MessageType::Acknowledgement } else { coap_lite::MessageType::NonConfirmable });
            p.set_token(shape.tok.clone());
            overhead_of(&p)
        };
        let ovq = overhead_of(&shape.spec(7, None, Some(bv_bytes(num, false, szx)), &[]).build());
        if m >= ov + 28 && m >= ovq + 28 && m <= 1280 {
            if let (Outcome::Ok(_), Some(r)) = (&a.outcome, &a.resp) {
                let wl = r.to_bytes_unlimited().map(|b| b.len()).unwrap_or(usize::MAX);
                if wl > m {
                    problems.push(("C10", format!("reply to a Block2 request for block {} (size {}) has {} bytes, budget {}", num, 16usize << szx, wl, m)));
                }
                if let Some((_, _, s)) = first_opt(r, 23).and_then(|b| parse_bv(&b)) {
                    if s > 6 || s > szx {
                        problems.push(("C10", format!("block size exponent {} chosen for a client asking {}", s, szx)));
                    }
                }
            }
        }
    }
    report(cx, &sess, problems);
}


/// a transfer is completed (cache entry released, the key's state entry stays), then the same key
/// asks for block `num > 0` at the size the first transfer used; the application answers with a
/// reply that has grown (more option bytes, other body) and the request may carry a longer token:
/// whatever the handler remembers of the first transfer, this reply must fit the budget (C10) and
/// be cut at the size the reply names (C08)
fn run_resume(cx: &mut Ctx, shape: &ReqShape, m: usize, szx: u8, body1: &[u8], body2: &[u8], grow: usize, tok2: Vec<u8>, num: usize) {
    let mut sess = Session::new(m, 60000);
    let mut problems: Vec<(&'static str, String)> = vec![];
    // first transfer, run to completion
    let o = sess.step(Op::Req(1, shape.spec(1, None, Some(bv_bytes(0, false, szx)), &[])));
    if o.outcome == Outcome::Ok(false) {
        let a = sess.step(Op::App(0x45, vec![], body1.to_vec()));
        let mut used = a.resp.as_ref().and_then(|r| first_opt(r, 23)).and_then(|b| parse_bv(&b)).map(|x| x.2).unwrap_or(szx);
        let mut more = a.outcome == Outcome::Ok(true);
        let mut k = 1usize;
        while more && k < 400 {
            let r = sess.step(Op::Req(1, shape.spec(1 + k as u16, None, Some(bv_bytes(k, false, used)), &[])));
            let b = r.resp.as_ref().and_then(|r| first_opt(r, 23)).and_then(|b| parse_bv(&b));
            more = r.outcome == Outcome::Ok(true) && b.map(|x| x.1).unwrap_or(false);
            if let Some(x) = b {
                used = x.2;
            }
            k += 1;
        }
        // the resumed request
        let mut shape2 = shape.clone();
        shape2.tok = tok2;
        let rq = shape2.spec(900, None, Some(bv_bytes(num, false, used)), &[]);
        let ovq = overhead_of(&rq.build());
        let o2 = sess.step(Op::Req(1, rq));
        if o2.outcome == Outcome::Ok(false) {
            let ropts = if grow > 0 { vec![(4u16, vec![0xE7; grow.min(8)]), (8u16, vec![0x6c; grow])] } else { vec![] };
            let a2 = sess.step(Op::App(0x45, ropts.clone(), body2.to_vec()));
            let ov = {
                let mut p = Packet::new();
                p.set_token(shape2.tok.clone());
                for (n, v) in &ropts {
                    p.add_option(CoapOption::from(*n), v.clone());
                }
                overhead_of(&p)
            };
            if m >= ov + 28 && m >= ovq + 28 && m <= 1280 {
                if let (Outcome::Ok(_), Some(r)) = (&a2.outcome, &a2.resp) {
                    let wl = r.to_bytes_unlimited().map(|b| b.len()).unwrap_or(usize::MAX);
                    if wl > m {
                        problems.push(("C10", format!("reply of {} bytes to a resumed Block2 request (block {}, size {}) exceeds the budget {}", wl, num, 16usize << used, m)));
                    }
                    if let Some((n, mo, sx)) = first_opt(r, 23).and_then(|b| parse_bv(&b)) {
                        let sz = 16usize << sx;
                        if sx > used || sx > 6 {
                            problems.push(("C10", format!("size exponent {} chosen for a client asking {}", sx, used)));
                        }
                        let want: Vec<u8> = body2.iter().skip(n * sz).take(sz).cloned().collect();
                        if r.payload != want || mo != ((n + 1) * sz < body2.len()) {
                            problems.push(("C08", format!("resumed block {} (size {}) does not carry bytes {}.. of the application's reply / wrong more flag", n, sz, n * sz)));
                        }
                    }
                } else if matches!(a2.outcome, Outcome::Panic) {
                    problems.push(("C11", "intercept_response panicked".into()));
                }
            }
        }
    }
    report(cx, &sess, problems);
}

/// upload whose second block carries more options than the first (same cache key): the size
/// acknowledged for it must be negotiated against ITS overhead (C10)
fn run_upload_growing(cx: &mut Ctx, shape: &ReqShape, m: usize, szx: u8, extra: usize, body: &[u8]) {
    let size = 16usize << szx;
    let mut sess = Session::new(m, 60000);
    let mut problems: Vec<(&'static str, String)> = vec![];
    sess.step(Op::Req(1, shape.spec(1, Some(bv_bytes(0, true, szx)), None, &body[..size.min(body.len())])));
    let mut grown = shape.clone();
    grown.extra.push((15, vec![0x71; extra])); // Uri-Query is not part of the key
    let spec2 = grown.spec(2, Some(bv_bytes(1, true, szx)), None, &body[size.min(body.len())..(2 * size).min(body.len())]);
    let ov2 = overhead_of(&grown.spec(2, Some(bv_bytes(1, true, szx)), None, &[]).build());
    let o = sess.step(Op::Req(1, spec2));
    if m >= ov2 + 28 && m <= 1280 {
        if let (Outcome::Ok(true), Some(r)) = (&o.outcome, &o.resp) {
            if let Some((_, _, s)) = first_opt(r, 27).and_then(|b| parse_bv(&b)) {
                let nsz = 16usize << s;
                if nsz + ov2 + 12 > m + 12 && nsz + ov2 > m {
                    problems.push(("C10", format!("block 1 acknowledged at size {} although overhead {} leaves only {} bytes of budget {}", nsz, ov2, m.saturating_sub(ov2), m)));
                }
                let next = grown.spec(3, Some(bv_bytes(2, true, s)), None, &vec![0u8; nsz]).build();
                let nl = next.to_bytes_unlimited().map(|b| b.len()).unwrap_or(usize::MAX);
                if nl > m {
                    problems.push(("C10", format!("client's next upload block at the acknowledged size {} needs {} bytes, budget {}", nsz, nl, m)));
                }
                if s > szx {
                    problems.push(("C10", "acknowledged size larger than the client's".into()));
                }
            }
        }
    }
    report(cx, &sess, problems);
}

// ------------------------------------------------------------------ scenario C: hostile traffic (C11)

fn hostile_request(rng: &mut Rng, shapes: &[ReqShape]) -> (u8, PktSpec) {
    let mut shape = rng.pick(shapes).clone();
    shape.typ = rng.below(4) as u8;
    if rng.chance(1, 6) {
        shape.code = *rng.pick(&[0u8, 1, 2, 3, 4, 5, 0x45, 0xFF, 0x20]);
    }
    // option bloat
    match rng.below(6) {
        0 => shape.extra.push((15, vec![0x71; *rng.pick(&[200usize, 268, 269, 600, 1000, 1266, 1270, 1400])])),
        1 => {
            for _ in 0..rng.below(8) {
                shape.extra.push((15, vec![0x72; 200]));
            }
        }
        _ => {}
    }
    let blockval = |rng: &mut Rng| -> Vec<u8> {
        match rng.below(8) {
            0 => { let n = rng.below(6) as usize; rng.bytes(n) }
            _ => {
                let num = *rng.pick(&[0usize, 0, 1, 1, 2, 100, 4095, 65535]);
                bv_bytes(num, rng.chance(1, 2), rng.below(8) as u8)
            }
        }
    };
    let b1 = if rng.chance(1, 2) { Some(blockval(rng)) } else { None };
    let b2 = if rng.chance(1, 2) { Some(blockval(rng)) } else { None };
    let pl = *rng.pick(&[0usize, 0, 1, 15, 16, 17, 64, 500, 1024, 1200]);
    let payload = vec![0x5a; pl];
    let ep = rng.below(3) as u8;
    (ep, shape.spec(rng.below(65536) as u16, b1, b2, &payload))
}

pub fn run_hostile(cx: &mut Ctx, rng: &mut Rng, shapes: &[ReqShape]) {
    let m = match rng.below(6) {
        0 => rng.below(65) as usize,
        1 => 1152,
        2 => rng.below(5001) as usize,
        3 => rng.range(20, 60) as usize,
        _ => *rng.pick(&[0usize, 16, 21, 22, 23, 24, 32, 37, 38, 64, 128, 1280, 5000, 65535, 65536, 1 << 32, usize::MAX / 2, usize::MAX - 1, usize::MAX]),
    };
    let mut sess = Session::new(m, 60_000);
    let mut problems: Vec<(&'static str, String)> = vec![];
    let n = rng.range(1, 6);
    for _ in 0..n {
        let (ep, spec) = hostile_request(rng, shapes);
        let before_opt = guarded(|| sess.peek_of(&CoapRequest::from_packet(spec.build(), ep))).unwrap_or(None).and_then(|p| p.buf);
        let before = before_opt.unwrap_or(0);
        let had_response = (spec.vtt >> 4) & 3 < 2;
        let plen = spec.payload.len();
        let b1_of_spec: Option<Vec<u8>> = spec.opts.iter().find(|(n, _)| *n == 27).map(|(_, v)| v.clone());
        let o = sess.step(Op::Req(ep, spec));
        let after = o.peek.as_ref().and_then(|p| p.buf);
        match &o.outcome {
            Outcome::Panic => problems.push(("C11", "intercept_request panicked".into())),
            Outcome::Herr(code) => {
                match code {
                    None => {
                        if had_response {
                            problems.push(("C11", "code-less handling error although a reply was prepared (cannot be rendered)".into()));
                        }
                    }
                    Some(c) => {
                        if *c < 0x80 {
                            problems.push(("C11", format!("handling error with non-error code {:#x}", c)));
                        }
                    }
                }
            }
            Outcome::Ok(_) => {}
        }
        if let Outcome::Herr(_) = &o.outcome {
            // a block whose end lies more than 16 KiB beyond the buffered data is rejected
            // and leaves the buffered data unchanged
            if let Some((num, _, szx)) = b1_of_spec.as_ref().and_then(|b| parse_bv(b)) {
                let size = 16usize << szx;
                if num > 0 && num <= 65535 && (num * size + size).saturating_sub(before) > 16384 && after.unwrap_or(0) != before {
                    problems.push(("C11", format!("block {} (size {}) needed an oversize jump and was rejected, but the buffered upload changed from {} to {:?} bytes", num, size, before, after)));
                }
            }
        }
        if let Some(a) = after {
            if a > before + 16384 + plen {
                problems.push(("C11", format!("upload buffer grew from {} to {} bytes on a request with {} payload bytes", before, a, plen)));
            }
        }
        if o.outcome == Outcome::Ok(false) || rng.chance(1, 5) {
            // application reply
            let body = *rng.pick(&[0usize, 1, 16, 100, 1024, 1500, 10000]);
            let mut opts: Vec<(u16, Vec<u8>)> = vec![];
            match rng.below(6) {
                0 => opts.push((4, vec![1; 8])),
                1 => opts.push((8, vec![0x6c; *rng.pick(&[300usize, 1300, 2000])])),
                2 => opts.push((23, bv_bytes(rng.below(3) as usize, rng.chance(1, 2), rng.below(8) as u8))),
                _ => {}
            }
            let a = sess.step(Op::App(*rng.pick(&[0x45u8, 0x44, 0x84, 0x5F]), opts, vec![0x62; body]));
            match &a.outcome {
                Outcome::Panic => problems.push(("C11", "intercept_response panicked".into())),
                Outcome::Herr(Some(c)) if *c < 0x80 => problems.push(("C11", format!("handling error with non-error code {:#x}", c))),
                Outcome::Herr(None) => {
                    if a.resp.is_some() {
                        problems.push(("C11", "code-less handling error although a reply exists".into()));
                    }
                }
                _ => {}
            }
        }
    }
    report(cx, &sess, problems);
}

// ------------------------------------------------------------------ scenario D: interleavings (C12)

#[derive(Clone)]
pub struct Script {
    ep: u8,
    steps: Vec<(PktSpec, Option<(Vec<(u16, Vec<u8>)>, Vec<u8>)>)>, // request, app reply if it reaches the app
    /// response code byte the application answers with (2.05 unless varied: what one transfer is
    /// answered with must not matter to another)
    pub app_code: u8,
}

impl Script {
    pub fn with_code(mut self, c: u8) -> Script {
        self.app_code = c;
        self
    }
}

fn run_script_ops(sess: &mut Session, sc: &Script, idx: usize) -> Vec<String> {
    let (spec, reply) = &sc.steps[idx];
    let mut out = vec![];
    let o = sess.step(Op::Req(sc.ep, spec.clone()));
    out.push(o.text.split(" K").next().unwrap_or("").to_string());
    if o.outcome == Outcome::Ok(false) {
        if let Some((opts, body)) = reply {
            let a = sess.step(Op::App(sc.app_code, opts.clone(), body.clone()));
            out.push(a.text.split(" K").next().unwrap_or("").to_string());
        }
    }
    // replies belong to the request being answered
    if let Some(r) = &o.resp {
        if r.header.message_id != spec.mid || r.get_token() != &spec.tok[..] {
            out.push("WRONG-CORRELATION".into());
        }
    }
    out
}

/// two transfers whose exchanges OVERLAP (a pipelined server): request 1, request 2, then the
/// application's replies in either order; each transfer must observe what it observes alone
pub fn run_pipelined(cx: &mut Ctx, s1: &Script, s2: &Script, m: usize, second_first: bool) {
    let solo = |sc: &Script| -> Vec<Vec<String>> {
        let mut sess = Session::new(m, 3_600_000);
        (0..sc.steps.len()).map(|i| run_script_ops(&mut sess, sc, i)).collect()
    };
    let (t1, t2) = (solo(s1), solo(s2));
    let mut sess = Session::new(m, 3_600_000);
    let mut problems: Vec<(&'static str, String)> = vec![];
    let short = |t: &str| t.split(" K").next().unwrap_or("").to_string();
    for i in 0..s1.steps.len().min(s2.steps.len()) {
        let mut o1: Vec<String> = vec![];
        let mut o2: Vec<String> = vec![];
        let r1 = sess.step(Op::Req(s1.ep, s1.steps[i].0.clone()));
        o1.push(short(&r1.text));
        sess.step(Op::Swap); // request 1 is held aside
        let r2 = sess.step(Op::Req(s2.ep, s2.steps[i].0.clone()));
        o2.push(short(&r2.text));
        // pending = request 2, held = request 1
        let answer = |sess: &mut Session, sc: &Script, r: &StepOut, o: &mut Vec<String>| {
            if r.outcome == Outcome::Ok(false) {
                if let Some((opts, body)) = &sc.steps[i].1 {
                    let a = sess.step(Op::App(sc.app_code, opts.clone(), body.clone()));
                    o.push(short(&a.text));
                }
            }
        };
        if second_first {
            answer(&mut sess, s2, &r2, &mut o2);
            sess.step(Op::Swap);
            answer(&mut sess, s1, &r1, &mut o1);
        } else {
            sess.step(Op::Swap);
            answer(&mut sess, s1, &r1, &mut o1);
            sess.step(Op::Swap);
            answer(&mut sess, s2, &r2, &mut o2);
        }
        for (which, o, t, r, spec) in [(1, &o1, &t1[i], &r1, &s1.steps[i].0), (2, &o2, &t2[i], &r2, &s2.steps[i].0)] {
            if o != t {
                problems.push(("C12", format!("overlapping exchanges: transfer {}, exchange {}: observed {:?} but alone it observes {:?}", which, i, o, t)));
                problems.push(("C20", format!("the state of transfer {} did not survive a request for another key made between its request and its reply (expiry not elapsed): exchange {} observed {:?} but alone it observes {:?}", which, i, o, t)));
            }
            if let Some(rp) = &r.resp {
                if rp.header.message_id != spec.mid || rp.get_token() != &spec.tok[..] {
                    problems.push(("C12", "reply does not carry the message id / token of the request being answered".into()));
                }
            }
        }
    }
    report(cx, &sess, problems);
}

fn interleavings(a: usize, b: usize, f: &mut dyn FnMut(&[u8])) {
    fn rec(a: usize, b: usize, cur: &mut Vec<u8>, f: &mut dyn FnMut(&[u8])) {
        if a == 0 && b == 0 {
            f(cur);
            return;
        }
        if a > 0 {
            cur.push(0);
            rec(a - 1, b, cur, f);
            cur.pop();
        }
        if b > 0 {
            cur.push(1);
            rec(a, b - 1, cur, f);
            cur.pop();
        }
    }
    rec(a, b, &mut vec![], f);
}

pub fn download_script(shape: &ReqShape, ep: u8, body: &[u8], szx: u8, midbase: u16) -> Script {
    let size = 16usize << szx;
    let nblocks = (body.len() + size - 1) / size;
    let mut steps = vec![(shape.spec(midbase, None, Some(bv_bytes(0, false, szx)), &[]), Some((vec![(4u16, vec![midbase as u8])], body.to_vec())))];
    for i in 1..nblocks.min(4) {
        let mut sh = shape.clone();
        sh.tok = vec![midbase as u8, i as u8];
        steps.push((sh.spec(midbase + i as u16, None, Some(bv_bytes(i, false, szx)), &[]), Some((vec![], b"fresh".to_vec()))));
    }
    Script { ep, steps, app_code: 0x45 }
}

pub fn upload_script(shape: &ReqShape, ep: u8, body: &[u8], szx: u8, midbase: u16) -> Script {
    let size = 16usize << szx;
    let chunks: Vec<&[u8]> = body.chunks(size).collect();
    let n = chunks.len();
    let mut steps = vec![];
    for (i, c) in chunks.iter().enumerate().take(4) {
        let mut sh = shape.clone();
        sh.tok = vec![midbase as u8, 0x80 | i as u8];
        steps.push((sh.spec(midbase + i as u16, Some(bv_bytes(i, i + 1 < n, szx)), None, c), Some((vec![], b"done".to_vec()))));
    }
    Script { ep, steps, app_code: 0x45 }
}

pub fn run_interleavings(cx: &mut Ctx, s1: &Script, s2: &Script, m: usize) {
    // solo transcripts
    let solo = |sc: &Script| -> Vec<Vec<String>> {
        let mut sess = Session::new(m, 3_600_000);
        (0..sc.steps.len()).map(|i| run_script_ops(&mut sess, sc, i)).collect()
    };
    let t1 = solo(s1);
    let t2 = solo(s2);
    let mut count = 0;
    interleavings(s1.steps.len(), s2.steps.len(), &mut |order| {
        let mut sess = Session::new(m, 3_600_000);
        let (mut i1, mut i2) = (0usize, 0usize);
        let mut problems: Vec<(&'static str, String)> = vec![];
        for &who in order {
            if who == 0 {
                let t = run_script_ops(&mut sess, s1, i1);
                if t != t1[i1] {
                    problems.push(("C12", format!("transfer 1, exchange {}: observed {:?} but alone it observes {:?}", i1, t, t1[i1])));
                }
                if t.iter().any(|x| x == "WRONG-CORRELATION") {
                    problems.push(("C12", "reply does not carry the message id / token of the request being answered".into()));
                }
                i1 += 1;
            } else {
                let t = run_script_ops(&mut sess, s2, i2);
                if t != t2[i2] {
                    problems.push(("C12", format!("transfer 2, exchange {}: observed {:?} but alone it observes {:?}", i2, t, t2[i2])));
                }
                if t.iter().any(|x| x == "WRONG-CORRELATION") {
                    problems.push(("C12", "reply does not carry the message id / token of the request being answered".into()));
                }
                i2 += 1;
            }
        }
        count += 1;
        report(cx, &sess, problems);
    });
    cx.stat_n("interleavings", count);
}

// ------------------------------------------------------------------ scenario E: cache lifetime (C20)

pub fn run_lifetime(cx: &mut Ctx, rng: &mut Rng, shapes: &[ReqShape]) {
    let ttl = *rng.pick(&[1000u64, 20, 60, 3_600_000]);
    let m = 64usize;
    let shape = &shapes[0];
    let others: Vec<ReqShape> = (0..40)
        .map(|i| {
            let mut s = shape.clone();
            s.path = vec![format!("o{}", i).into_bytes()];
            s
        })
        .collect();
    for kind in 0..2 {
        for idle in [ttl - 1, ttl, ttl + 1, 4 * ttl] {
            let mut sess = Session::new(m, ttl);
            let mut problems: Vec<(&'static str, String)> = vec![];
            let body = body_of(rng, 100);
            // start a transfer on key kappa
            if kind == 0 {
                sess.step(Op::Req(1, shape.spec(1, None, None, &[])));
                let a = sess.step(Op::App(0x45, vec![], body.clone()));
                if a.outcome != Outcome::Ok(true) {
                    problems.push(("C20", "setup: response was not fragmented".into()));
                }
            } else {
                sess.step(Op::Req(1, shape.spec(1, Some(bv_bytes(0, true, 0)), None, &body[..16])));
                sess.step(Op::Req(1, shape.spec(2, Some(bv_bytes(1, true, 0)), None, &body[16..32])));
            }
            // intervening requests on other keys, spread over the idle time
            let n_other = *rng.pick(&[0usize, 1, 3, 25]);
            let mut spent = 0u64;
            for i in 0..n_other {
                let dt = idle / (n_other as u64 + 1);
                sess.step(Op::Tick(dt));
                spent += dt;
                sess.step(Op::Req(2, others[i % others.len()].spec(50 + i as u16, None, None, &[])));
            }
            sess.step(Op::Tick(idle - spent));
            let should_live = idle <= ttl;
            if kind == 0 {
                let pk = sess.step(Op::Peek(1, shape.spec(9, None, None, &[])));
                let o = sess.step(Op::Req(1, shape.spec(9, None, Some(bv_bytes(1, false, 0)), &[])));
                if should_live {
                    if o.outcome != Outcome::Ok(true) || o.resp.as_ref().map(|r| r.payload.clone()) != Some(body[16..32].to_vec()) {
                        problems.push(("C20", format!("cached response idle for {} ms (expiry {} ms) was not used for the follow-up block: {}", idle, ttl, o.outcome.token())));
                    }
                } else {
                    if o.outcome != Outcome::Ok(false) {
                        problems.push(("C20", format!("cached response idle for {} ms (expiry {} ms) was still used: {}", idle, ttl, o.outcome.token())));
                    }
                    if pk.peek.is_some() {
                        problems.push(("C20", "expired state still visible".into()));
                    }
                }
            } else {
                let o = sess.step(Op::Req(1, shape.spec(9, Some(bv_bytes(2, false, 0)), None, &body[32..40])));
                let want: Vec<u8> = if should_live { body[..40].to_vec() } else { [vec![0u8; 32], body[32..40].to_vec()].concat() };
                if o.outcome != Outcome::Ok(false) || o.req_payload != want {
                    problems.push(("C20", format!("upload buffer idle for {} ms (expiry {} ms): final block delivered {} bytes, expected {} ({})", idle, ttl, o.req_payload.len(), want.len(), if should_live { "buffer retained" } else { "continue from an empty buffer" })));
                }
            }
            report(cx, &sess, problems);
        }
    }
}


/// keep-alive: EVERY call for a key counts as a use – also an exact repetition of the previous block
/// request, a request for an earlier block, or a duplicate upload block. A transfer whose consecutive
/// calls are less than the expiry apart stays alive however long it takes in total (C20), and is
/// still served from the cache / still reassembles the body (C08, C09)
pub fn run_keepalive(cx: &mut Ctx, rng: &mut Rng, shapes: &[ReqShape]) {
    let ttl = *rng.pick(&[1000u64, 60, 20]);
    let m = 64usize;
    let shape = &shapes[(rng.below(shapes.len() as u64)) as usize];
    let gap = *rng.pick(&[ttl * 6 / 10, ttl - 1, ttl, ttl / 2 + 1]);
    let patterns: [&[usize]; 5] = [&[1, 1, 2], &[1, 1, 1, 2, 2, 3], &[1, 2, 2, 3], &[2, 1, 1, 2, 3], &[1, 2, 1, 2, 3, 3, 4]];
    let pat = patterns[rng.below(5) as usize];
    // download
    {
        let mut sess = Session::new(m, ttl);
        let mut problems: Vec<(&'static str, String)> = vec![];
        let body = body_of(rng, 16 * 5 + 7);
        sess.step(Op::Req(1, shape.spec(1, None, Some(bv_bytes(0, false, 0)), &[])));
        let a = sess.step(Op::App(0x45, vec![], body.clone()));
        // the budget must leave room for the requests themselves
        let ovq = overhead_of(&shape.spec(1, None, Some(bv_bytes(4095, false, 0)), &[]).build());
        if a.outcome == Outcome::Ok(true) && m >= ovq + 28 {
            for (i, &num) in pat.iter().enumerate() {
                sess.step(Op::Tick(gap));
                if rng.chance(1, 3) {
                    sess.step(Op::Req(2, shapes[0].spec(700 + i as u16, None, None, &[])));
                }
                let o = sess.step(Op::Req(1, shape.spec(10 + i as u16, None, Some(bv_bytes(num, false, 0)), &[])));
                let want: Vec<u8> = body.iter().skip(num * 16).take(16).cloned().collect();
                if o.outcome != Outcome::Ok(true) || o.resp.as_ref().map(|r| r.payload.clone()) != Some(want) {
                    problems.push(("C20", format!("block {} requested {} ms after the previous call for this transfer (expiry {} ms) was not served from the cache: {}", num, gap, ttl, o.outcome.token())));
                    break;
                }
            }
        }
        report(cx, &sess, problems);
    }
    // upload with duplicates
    {
        let mut sess = Session::new(1152, ttl);
        let mut problems: Vec<(&'static str, String)> = vec![];
        let body = body_of(rng, 16 * 3 + 5);
        let seq: [usize; 7] = [0, 0, 1, 1, 1, 2, 3];
        for (i, &num) in seq.iter().enumerate() {
            if i > 0 {
                sess.step(Op::Tick(gap));
            }
            let last = num == 3;
            let chunk: Vec<u8> = body.iter().skip(num * 16).take(16).cloned().collect();
            let o = sess.step(Op::Req(1, shape.spec(30 + i as u16, Some(bv_bytes(num, !last, 0)), None, &chunk)));
            if !last && o.outcome != Outcome::Ok(true) {
                problems.push(("C09", format!("non-final upload block {} was not answered by the handler: {}", num, o.outcome.token())));
            }
            if last && (o.outcome != Outcome::Ok(false) || o.req_payload != body) {
                problems.push(("C20", format!("upload whose consecutive blocks were {} ms apart (expiry {} ms) did not deliver the body: {} bytes instead of {}", gap, ttl, o.req_payload.len(), body.len())));
            }
        }
        report(cx, &sess, problems);
    }
}


/// `extending_splice` is a public helper: called directly, with exclusive and inclusive ranges
/// (start <= end), it must behave like the handler's use of it (model: `extendingSplice`)
fn run_splice_direct(cx: &mut Ctx) {
    use coap_lite::block_handler::extending_splice;
    for &dstlen in &[0usize, 1, 16, 40, 100] {
        for &start in &[0usize, 1, 15, 16, 40, 99, 100, 120, 16384, 16500] {
            for &len in &[0usize, 1, 16, 64] {
                for &paylen in &[0usize, 1, 16, 20, 70] {
                    for &maxres in &[0usize, 16, 16384] {
                        let stop = start + len;
                        for incl in [false, true] {
                            if incl && stop == 0 {
                                continue;
                            }
                            let mut dst: Vec<u8> = (0..dstlen).map(|i| (i + 1) as u8).collect();
                            let pay = vec![0xAAu8; paylen];
                            let r = guarded(|| {
                                let res = if incl {
                                    extending_splice(&mut dst, start..=stop - 1, pay.iter().copied(), maxres).map(|s| drop(s))
                                } else {
                                    extending_splice(&mut dst, start..stop, pay.iter().copied(), maxres).map(|s| drop(s))
                                };
                                res.map(|_| dst.clone()).map_err(|_| ())
                            });
                            let line = format!("BLK splice {} {} {} {} {}", dstlen, start, stop, paylen, maxres);
                            let out = match &r {
                                None => "panic".to_string(),
                                Some(Err(())) => "err".to_string(),
                                Some(Ok(d)) => format!("ok {} {} {}", d.len(), hex(&d[..d.len().min(40)]), hex(&d[d.len().saturating_sub(8)..])),
                            };
                            cx.case(&line, &out);
                            if r.is_none() {
                                cx.oracle_fail("C11", &line, "extending_splice panicked on a well-ordered range");
                            }
                            if let Some(Ok(d)) = &r {
                                let grown = d.len().saturating_sub(dstlen);
                                if grown > maxres + paylen {
                                    cx.oracle_fail("C11", &line, &format!("buffer grew by {} bytes, more than the reserve {} plus the payload {}", grown, maxres, paylen));
                                }
                            }
                        }
                    }
                }
            }
        }
    }
}


/// slow application: time passes BETWEEN intercept_request and intercept_response of one exchange.
/// State that has been idle for longer than the expiry by the time the response comes through must
/// not be used (nor revived) by intercept_response either (C20)
pub fn run_slow_app(cx: &mut Ctx, rng: &mut Rng, shapes: &[ReqShape]) {
    let shape = &shapes[0];
    for &ttl in &[20u64, 1000] {
        for d in [ttl - 1, ttl, ttl + 1, 3 * ttl] {
            // 1. a size preference given with the request is forgotten when the reply comes too late
            let body = body_of(rng, 150);
            let mut a = Session::new(200, ttl);
            let mut problems: Vec<(&'static str, String)> = vec![];
            let o = a.step(Op::Req(1, shape.spec(1, None, Some(bv_bytes(0, false, 0)), &[])));
            a.step(Op::Tick(d));
            let ra = a.step(Op::App(0x45, vec![], body.clone()));
            let mut b = Session::new(200, ttl);
            b.step(Op::Req(1, shape.spec(1, None, None, &[])));
            let rb = b.step(Op::App(0x45, vec![], body.clone()));
            if o.outcome == Outcome::Ok(false) {
                let blk = |r: &StepOut| r.resp.as_ref().and_then(|p| first_opt(p, 23)).and_then(|v| parse_bv(&v));
                if d > ttl {
                    if blk(&ra) != blk(&rb) || ra.resp.as_ref().map(|p| p.payload.clone()) != rb.resp.as_ref().map(|p| p.payload.clone()) {
                        problems.push(("C20", format!("the reply came {} ms after the request (expiry {} ms) and was still cut by the request's expired Block2 preference: {:?} instead of {:?}", d, ttl, blk(&ra), blk(&rb))));
                    }
                } else if blk(&ra).map(|x| x.2) != Some(0) {
                    problems.push(("C20", format!("the reply came {} ms after the request (expiry {} ms) but the request's Block2 preference was not honoured: {:?}", d, ttl, blk(&ra))));
                }
            }
            report(cx, &a, problems);
            FakeClock::set_time(0);
            // 2. an upload block buffered, then nothing but a late intercept_response for that key (a server
            //    that routes every reply through the handler), then the final block
            let mut s = Session::new(1152, ttl);
            let mut problems: Vec<(&'static str, String)> = vec![];
            let body = body_of(rng, 24);
            s.step(Op::Req(1, shape.spec(5, Some(bv_bytes(0, true, 0)), None, &body[..16])));
            s.step(Op::Tick(d));
            s.step(Op::App(0x5f, vec![], vec![]));
            let f = s.step(Op::Req(1, shape.spec(6, Some(bv_bytes(1, false, 0)), None, &body[16..])));
            let want: Vec<u8> = if d <= ttl { body.clone() } else { [vec![0u8; 16], body[16..].to_vec()].concat() };
            if f.outcome != Outcome::Ok(false) || f.req_payload != want {
                problems.push(("C20", format!("upload buffer idle for {} ms (expiry {} ms) before a late intercept_response: the final block delivered {} bytes ({}), expected {}", d, ttl, f.req_payload.len(), f.outcome.token(), if d <= ttl { "the whole body" } else { "a fresh buffer" })));
            }
            report(cx, &s, problems);
        }
    }
}

/// reclamation: abandoned transfers do not hold memory after expiry + one more use (observed through the allocator)
fn run_reclaim(cx: &mut Ctx, shapes: &[ReqShape]) {
    let shape = &shapes[0];
    // `next_use`: what the next use of the handler after the expiry is – 0: an unrelated request that is
    // passed on, 1: a request the handler REJECTS (its options alone exceed the budget), 2: an
    // intercept_response call for an unrelated exchange. Each of them is a use of the handler.
    for next_use in 0..3 {
        for n in [1usize, 5, 50] {
            FakeClock::set_time(0);
            let base = LIVE.load(Ordering::Relaxed);
            let mut h: BlockHandler<u8> = BlockHandler::new(BlockHandlerConfig { max_total_message_size: 1152, cache_expiry_duration: Duration::from_millis(1000) });
            for i in 0..n {
                let mut s = shape.clone();
                s.path = vec![format!("up{}", i).into_bytes()];
                for b in 0..10 {
                    let mut req = CoapRequest::from_packet(s.spec(b as u16, Some(bv_bytes(b, true, 6)), None, &vec![7u8; 1024]).build(), 1u8);
                    let _ = h.intercept_request(&mut req);
                }
            }
            let held = LIVE.load(Ordering::Relaxed).saturating_sub(base);
            FakeClock::advance_time(1001);
            let mut s = shape.clone();
            s.path = vec![b"unrelated".to_vec()];
            let what = match next_use {
                0 => {
                    let mut req = CoapRequest::from_packet(s.spec(1, None, None, &[]).build(), 2u8);
                    let _ = h.intercept_request(&mut req);
                    "one unrelated request"
                }
                1 => {
                    s.extra.push((15, vec![0x71; 1400]));
                    let mut req = CoapRequest::from_packet(s.spec(1, None, None, &[]).build(), 2u8);
                    let r = guarded(|| h.intercept_request(&mut req).is_err());
                    if r != Some(true) {
                        cx.stat("reclaim_rejected_request_was_not_rejected");
                    }
                    "one unrelated request that the handler rejects"
                }
                _ => {
                    let mut req = CoapRequest::from_packet(s.spec(1, None, None, &[]).build(), 2u8);
                    if let Some(r) = req.response.as_mut() {
                        r.message.payload = b"ok".to_vec();
                    }
                    let _ = h.intercept_response(&mut req);
                    "one unrelated intercept_response call"
                }
            };
            let after = LIVE.load(Ordering::Relaxed).saturating_sub(base);
            cx.stat_n(&format!("reclaim_{}_{}_held_bytes", next_use, n), held as u64);
            cx.stat_n(&format!("reclaim_{}_{}_after_bytes", next_use, n), after as u64);
            if held < n * 10 * 1024 || after > 8192 + held / 20 {
                cx.oracle_fail("C20", &format!("BLK reclaim {} {}", next_use, n), &format!("{} abandoned uploads held {} bytes; after expiry and {} {} bytes are still held", n, held, what, after));
            }
            drop(h);
        }
    }
}

// ------------------------------------------------------------------ driver

pub fn default_shapes() -> Vec<ReqShape> {
    vec![
        ReqShape { typ: 0, code: 1, tok: vec![0xaa, 0xbb], path: vec![b"test".to_vec()], extra: vec![] },
        ReqShape { typ: 1, code: 3, tok: vec![], path: vec![b"a".to_vec(), b"b".to_vec()], extra: vec![] },
        ReqShape { typ: 0, code: 2, tok: vec![1, 2, 3, 4, 5, 6, 7, 8], path: vec![b"sensors".to_vec(), b"temperature".to_vec(), b"x".to_vec()], extra: vec![(15, b"q=1".to_vec())] },
        ReqShape { typ: 0, code: 1, tok: vec![9], path: vec![], extra: vec![(17, vec![50])] },
    ]
}

pub fn run(cx: &mut Ctx) {
    let thorough = cx.tier_thorough;
    let mut rng = Rng(cx.seed ^ 0x424c4b);
    let shapes: Vec<ReqShape> = default_shapes();

    // ---- corpus: witnesses of D13..D16 and K1
    {
        let mut s = Session::new(64, 60000);
        run_download(cx, &Download { shape: &shapes[0], ep: 1, m: 64, body: vec![], resp_opts: vec![], first_szx: Some(2), reduce_at: None, followup_toks: vec![] }, &mut s, true);
        let mut s = Session::new(22, 60000);
        s.step(Op::Req(1, shapes[0].spec(1, Some(bv_bytes(0, true, 0)), None, &[1; 16])));
        let l = s.emit(cx);
        if s.outs[0].outcome == Outcome::Panic {
            cx.oracle_fail("C11", &l, "intercept_request panicked");
        }
        let mut s = Session::new(1152, 60000);
        let mut sh = shapes[0].clone();
        sh.extra.push((15, vec![0x71; 1400]));
        s.step(Op::Req(1, sh.spec(1, None, None, &[])));
        let l = s.emit(cx);
        if s.outs[0].outcome == Outcome::Panic {
            cx.oracle_fail("C11", &l, "intercept_request panicked");
        }
        let mut s = Session::new(64, 60000);
        let other = body_of(&mut rng, 200);
        run_upload(cx, &Upload { shape: &shapes[1], ep: 1, m: 64, body: body_of(&mut rng, 21), szx: 0, dups: vec![1], abandoned: Some((other, 0, 6)), dup_final: 0, fresh_tokens: false }, &mut s);
        let mut s = Session::new(64, 60000);
        run_upload(cx, &Upload { shape: &shapes[1], ep: 1, m: 64, body: body_of(&mut rng, 40), szx: 0, dups: vec![1], abandoned: None, dup_final: 1, fresh_tokens: false }, &mut s);
    }

    // ---- A. Block2 downloads
    let small_sizes: [u8; 3] = [0, 1, 2];
    for &szx in &small_sizes {
        let s = 16usize << szx;
        for len in 0..=(3 * s + 1) {
            for (k, pref) in [None, Some(szx), Some(6u8)].iter().enumerate() {
                if !thorough && k == 2 && len % 5 != 0 {
                    continue;
                }
                let shape = &shapes[(len + k) % shapes.len()];
                // budget chosen so that the server-side block size is s: overhead + 12 + s .. + 2s
                let ov0 = overhead_of(&{
                    let mut p = Packet::new();
                    p.set_token(shape.tok.clone());
                    p
                });
                let m = ov0 + 12 + s + (len % s.min(8));
                let body = body_of(&mut rng, len);
                let mut sess = Session::new(m, 60000);
                run_download(cx, &Download { shape, ep: 1, m, body, resp_opts: if len % 3 == 0 { vec![(12, vec![40]), (4, vec![1, 2, 3])] } else { vec![] }, first_szx: *pref, reduce_at: None, followup_toks: vec![] }, &mut sess, len % 4 == 0);
            }
        }
    }
    cx.exhaustive.push("Block2 downloads of every body length 0..3*blocksize+1 for block sizes 16, 32, 64 x client preference none / equal / larger".into());
    // a client that writes its Block1/Block2 values at a fixed width (leading zero bytes): same transfers
    for width in [1usize, 2, 3] {
        BV_WIDTH.store(width, std::sync::atomic::Ordering::Relaxed);
        for (i, &(m, len, pref)) in [(64usize, 100usize, None), (64, 100, Some(0u8)), (100, 333, Some(1)), (128, 500, Some(6)), (300, 700, Some(2)), (1152, 3000, Some(2)), (1152, 3000, None)].iter().enumerate() {
            let shape = &shapes[i % shapes.len()];
            let body = body_of(&mut rng, len);
            let mut sess = Session::new(m, 60000);
            run_download(cx, &Download { shape, ep: 1, m, body, resp_opts: vec![], first_szx: pref, reduce_at: if i == 6 { Some((1, 0)) } else { None }, followup_toks: vec![] }, &mut sess, true);
        }
        for (i, &(m, len, szx)) in [(64usize, 50usize, 0u8), (100, 200, 1), (128, 200, 2), (1152, 2100, 6)].iter().enumerate() {
            let shape = &shapes[(i + 1) % shapes.len()];
            let mut sess = Session::new(m, 60000);
            run_upload(cx, &Upload { shape, ep: 1, m, body: body_of(&mut rng, len), szx, dups: vec![1], abandoned: None, dup_final: 0, fresh_tokens: false }, &mut sess);
        }
        BV_WIDTH.store(0, std::sync::atomic::Ordering::Relaxed);
    }
    // replies whose repeatable options carry equal values (Location-Path /node/7/node, two equal ETags)
    for ropts in [vec![(8u16, b"node".to_vec()), (8, b"7".to_vec()), (8, b"node".to_vec())], vec![(4u16, vec![1, 2]), (4, vec![1, 2])], vec![(8u16, vec![]), (8, vec![]), (20, b"a=1".to_vec()), (20, b"a=1".to_vec())]] {
        for &m in &[64usize, 128] {
            let shape = &shapes[0];
            let body = body_of(&mut rng, 150);
            let mut sess = Session::new(m + 40, 60000);
            run_download(cx, &Download { shape, ep: 1, m: m + 40, body, resp_opts: ropts.clone(), first_szx: Some(0), reduce_at: None, followup_toks: vec![] }, &mut sess, true);
        }
    }
    let lens: Vec<usize> = if thorough { vec![0, 15, 16, 17, 1023, 1024, 1025, 2048, 4097, 20000] } else { vec![0, 15, 16, 17, 1023, 1024, 1025, 5000] };
    for &len in &lens {
        for &m in &[38usize, 64, 100, 128, 256, 512, 1024, 1152, 1279, 1280] {
            for pref in [None, Some(0u8), Some(2), Some(4), Some(6)] {
                let shape = &shapes[(len + m) % shapes.len()];
                let body = body_of(&mut rng, len);
                let mut sess = Session::new(m, 60000);
                let reduce = if pref.is_none() && len > 64 { Some((1usize + (m % 3), 0u8)) } else { None };
                run_download(cx, &Download { shape, ep: 2, m, body, resp_opts: vec![], first_szx: pref, reduce_at: reduce, followup_toks: vec![] }, &mut sess, true);
            }
        }
    }
    // budgets in a band around every overhead + 12 + 2^j (C10), overheads varied
    for shape in &shapes {
        for ropts in [vec![], vec![(8u16, vec![0x6c; 40])], vec![(4u16, vec![1; 8]), (14, vec![60])]] {
            let ov = {
                let mut p = Packet::new();
                p.header.set_type(coap_lite::MessageType::Acknowledgement);
                p.set_token(shape.tok.clone());
                for (n, v) in &ropts {
                    p.add_option(CoapOption::from(*n), v.clone());
                }
                overhead_of(&p)
            };
            for j in 4..=10usize {
                for d in -3i64..=3 {
                    for extra in [12i64, 28, 32, 44] {
                        let m = ov as i64 + extra + (1i64 << j) + d;
                        if m < (ov + 28) as i64 || m > 1280 {
                            continue;
                        }
                        for pref in [None, Some((j as u8).saturating_sub(4).min(7)), Some(7u8), Some(0)] {
                            if !thorough && (d.abs() == 2 || extra == 44) && pref.is_some() {
                                continue;
                            }
                            let body = body_of(&mut rng, (1usize << j) * 2 + 5);
                            let mut sess = Session::new(m as usize, 60000);
                            run_download(cx, &Download { shape, ep: 3, m: m as usize, body, resp_opts: ropts.clone(), first_szx: pref, reduce_at: None, followup_toks: vec![] }, &mut sess, false);
                        }
                    }
                }
            }
        }
    }
    // follow-up requests whose token differs (also in LENGTH) from the first request's token, at
    // every budget in a band above the overhead: every block must still fit and carry that token
    for first_tkl in [0usize, 1, 4, 8] {
        for follow in [vec![vec![9u8; 8]], vec![vec![], vec![1, 2, 3, 4, 5, 6, 7, 8]], vec![vec![1], vec![1, 0]], vec![vec![5; 4]]] {
            let shape = ReqShape { typ: 0, code: 1, tok: vec![0xee; first_tkl], path: vec![b"x".to_vec()], extra: vec![] };
            for m in 40..=90usize {
                let body = body_of(&mut rng, 700);
                let mut sess = Session::new(m, 60000);
                run_download(cx, &Download { shape: &shape, ep: 1, m, body, resp_opts: vec![], first_szx: None, reduce_at: None, followup_toks: follow.clone() }, &mut sess, false);
            }
        }
    }
    // replies whose length sits exactly around "payload + overhead == budget" (unfragmented threshold)
    for shape in &shapes {
        for &m in &[48usize, 64, 128, 300, 1152] {
            let ov = {
                let mut p = Packet::new();
                p.header.set_type(if shape.typ == 0 { coap_lite::MessageType::Acknowledgement } else { coap_lite::MessageType::NonConfirmable });
                p.set_token(shape.tok.clone());
                overhead_of(&p)
            };
            for d in -16i64..=3 {
                let len = m as i64 - ov as i64 + d;
                if len < 0 {
                    continue;
                }
                let body = body_of(&mut rng, len as usize);
                let mut sess = Session::new(m, 60000);
                run_download(cx, &Download { shape, ep: 1, m, body, resp_opts: vec![], first_szx: None, reduce_at: None, followup_toks: vec![] }, &mut sess, false);
            }
        }
    }
    // Block2 requests that start at an arbitrary block with nothing cached
    for shape in &shapes {
        for &m in &[64usize, 100, 300, 1152, 4200, 1 << 32, usize::MAX - 7, usize::MAX] {
            for num in [0usize, 1, 2, 5] {
                for szx in [0u8, 2, 4, 6, 7] {
                    let body = body_of(&mut rng, 3000);
                    run_block2_probe(cx, shape, m, num, szx, &body);
                }
            }
        }
    }
    // budgets at the top of the `usize` range: nothing needs fragmenting, nothing may fail or wrap
    for &m in &[1usize << 32, usize::MAX / 2, usize::MAX - 12, usize::MAX - 1, usize::MAX] {
        for (si, shape) in shapes.iter().enumerate().take(2) {
            for pref in [None, Some(0u8), Some(6)] {
                let body = body_of(&mut rng, 3000 + si);
                let mut sess = Session::new(m, 60000);
                run_download(cx, &Download { shape, ep: 1, m, body, resp_opts: vec![], first_szx: pref, reduce_at: None, followup_toks: vec![] }, &mut sess, false);
            }
            let post = ReqShape { code: 2, ..shape.clone() };
            let mut sess = Session::new(m, 60000);
            run_upload(cx, &Upload { shape: &post, ep: 1, m, body: body_of(&mut rng, 200), szx: 2, dups: vec![1], abandoned: None, dup_final: 0, fresh_tokens: false }, &mut sess);
        }
    }
    // budgets far above one block (a large MTU, the `udp` limit of 64000): a body larger than the budget
    // must still be served block-wise (at most 1024-byte blocks), and a too-large request answered 4.13
    for &m in &[1500usize, 2100, 3000, 4200, 5000, 20000, 64000] {
        for (si, shape) in shapes.iter().enumerate().take(2) {
            let body = body_of(&mut rng, 2 * m + 77 + si);
            let mut sess = Session::new(m, 60000);
            run_download(cx, &Download { shape, ep: 1, m, body, resp_opts: vec![], first_szx: None, reduce_at: None, followup_toks: vec![] }, &mut sess, false);
            let mut sess = Session::new(m, 60000);
            let o = sess.step(Op::Req(1, ReqShape { code: 2, ..shape.clone() }.spec(7, None, None, &vec![5u8; m + 10])));
            let line = sess.emit(cx);
            let b1 = o.resp.as_ref().and_then(|r| first_opt(r, 27)).and_then(|b| parse_bv(&b));
            let ok = o.outcome == Outcome::Ok(true) && o.resp.as_ref().map(|r| u8::from(r.header.code)) == Some(0x8D) && b1.is_some();
            if !ok {
                cx.oracle_fail("C09", &line, &format!("request with {} payload bytes (budget {}) and no Block1 was not answered 4.13 with a Block1 hint: {}", m + 10, m, o.outcome.token()));
            }
        }
    }
    // a follow-up request names a LARGER block size than the one negotiated for the cached reply (the client
    // is free to ask; what it gets must still fit the budget, and be the bytes at the offset it named)
    for shape in shapes.iter().take(2) {
        for &(m, big) in &[(64usize, 6u8), (64, 2), (100, 6), (128, 4), (300, 6), (1152, 7)] {
            let body = body_of(&mut rng, 3000);
            let mut sess = Session::new(m, 60000);
            let mut problems: Vec<(&'static str, String)> = vec![];
            let o = sess.step(Op::Req(1, shape.spec(1, None, None, &[])));
            if o.outcome == Outcome::Ok(false) {
                let a = sess.step(Op::App(0x45, vec![], body.clone()));
                let neg = a.resp.as_ref().and_then(|r| first_opt(r, 23)).and_then(|b| parse_bv(&b)).map(|x| x.2);
                let ovq = overhead_of(&shape.spec(2, None, Some(bv_bytes(1, false, big)), &[]).build());
                if let (Outcome::Ok(true), Some(szx)) = (&a.outcome, neg) {
                    for num in [1usize, 2] {
                        let f = sess.step(Op::Req(1, shape.spec(2 + num as u16, None, Some(bv_bytes(num, false, big)), &[])));
                        if m >= ovq + 28 && m <= 1280 {
                            if let (Outcome::Ok(true), Some(r)) = (&f.outcome, &f.resp) {
                                let wl = r.to_bytes_unlimited().map(|b| b.len()).unwrap_or(usize::MAX);
                                if wl > m {
                                    problems.push(("C10", format!("follow-up asking for size {} (negotiated {}): the reply has {} bytes, budget {}", 16usize << big, 16usize << szx, wl, m)));
                                }
                                if let Some((n2, mo, s2)) = first_opt(r, 23).and_then(|b| parse_bv(&b)) {
                                    let off = n2 * (16usize << s2);
                                    let want: Vec<u8> = body.iter().skip(off).take(16usize << s2).cloned().collect();
                                    if off != num * (16usize << big) || r.payload != want || mo != (off + (16usize << s2) < body.len()) {
                                        problems.push(("C08", format!("follow-up for offset {} answered with block {} of size {} (offset {}), {} payload bytes", num * (16usize << big), n2, 16usize << s2, off, r.payload.len())));
                                    }
                                }
                            }
                        }
                    }
                }
            }
            report(cx, &sess, problems);
        }
    }
    // a transfer restarted on a key that still holds an abandoned cached response with OTHER options: every
    // block of the new transfer repeats exactly the new reply's options
    for shape in shapes.iter().take(2) {
        for (old_opts, new_opts) in [
            (vec![(4u16, vec![0xEEu8; 4])], vec![]),
            (vec![(4u16, vec![1]), (8, b"old".to_vec()), (14, vec![60])], vec![(8u16, b"new".to_vec())]),
            (vec![(12u16, vec![50])], vec![(4u16, vec![2])]),
        ] {
            let mut sess = Session::new(96, 60000);
            sess.step(Op::Req(1, shape.spec(1, None, None, &[])));
            sess.step(Op::App(0x45, old_opts.clone(), body_of(&mut rng, 400)));
            // abandoned after block 0; the client starts over
            run_download(cx, &Download { shape, ep: 1, m: 96, body: body_of(&mut rng, 300), resp_opts: new_opts.clone(), first_szx: None, reduce_at: None, followup_toks: vec![] }, &mut sess, true);
        }
    }
    // many values of one option (a 16-segment Uri-Path on the requests, ten Location-Path values on the reply):
    // budgets in a band below and above every power-of-two boundary
    {
        let long = ReqShape { typ: 0, code: 3, tok: vec![0xab, 0xcd], path: (0..16).map(|i| vec![b's', b'a' + i as u8]).collect(), extra: vec![] };
        let ov_req = overhead_of(&long.spec(1, Some(bv_bytes(1, true, 6)), None, &[]).build());
        for j in 4..=7u32 {
            for delta in -16i64..=3 {
                let m = (ov_req as i64 + 12 + (1i64 << j) + delta) as usize;
                if m > 1280 {
                    continue;
                }
                // the client's block size is the next power of two ABOVE what the budget leaves room for
                let szx = ((j - 4 + 1) as u8).min(6);
                let mut sess = Session::new(m, 60000);
                run_upload(cx, &Upload { shape: &long, ep: 1, m, body: body_of(&mut rng, 3 * (16usize << szx) + 7), szx, dups: vec![1], abandoned: None, dup_final: 0, fresh_tokens: false }, &mut sess);
                let ropts: Vec<(u16, Vec<u8>)> = (0..10).map(|i| (8u16, vec![b'l', b'0' + i as u8])).collect();
                let get = ReqShape { code: 1, ..long.clone() };
                let mut sess = Session::new(m, 60000);
                run_download(cx, &Download { shape: &get, ep: 1, m, body: body_of(&mut rng, 5 * (1usize << j) + 3), resp_opts: ropts, first_szx: Some(6), reduce_at: None, followup_toks: vec![] }, &mut sess, false);
            }
        }
    }
    // isolation under load: other keys (another endpoint, another path, another method) hold unfinished
    // uploads of 17 KiB and more in total – this key's upload and download run as if they were alone
    for (i, shape) in shapes.iter().take(2).enumerate() {
        for &(other_ep, n_blocks, n_keys) in &[(2u8, 17usize, 1usize), (1, 6, 4), (2, 9, 2)] {
            let mut sess = Session::new(1152, 60000);
            for k in 0..n_keys {
                let other = ReqShape { code: 2, path: vec![format!("bulk{}", k).into_bytes()], tok: vec![0x70 + k as u8], ..shape.clone() };
                for b in 0..n_blocks {
                    sess.step(Op::Req(other_ep, other.spec((k * 100 + b) as u16, Some(bv_bytes(b, true, 6)), None, &vec![0x5A; 1024])));
                }
            }
            let post = ReqShape { code: 2, ..shape.clone() };
            let szx = [6u8, 2][i % 2];
            // the same scripted upload alone and under load: it observes the same replies (C12)
            {
                let body = body_of(&mut rng, 3 * (16usize << szx) + 5);
                let sc = upload_script(&post, 1, &body, szx, 900);
                let mut alone = Session::new(1152, 60000);
                let mut t_alone: Vec<String> = vec![];
                let mut t_loaded: Vec<String> = vec![];
                for idx in 0..sc.steps.len() {
                    t_alone.extend(run_script_ops(&mut alone, &sc, idx));
                    t_loaded.extend(run_script_ops(&mut sess, &sc, idx));
                }
                if t_alone != t_loaded {
                    let at = t_alone.iter().zip(t_loaded.iter()).position(|(a, b)| a != b).unwrap_or(0);
                    let problems = vec![("C12", format!("an upload running while other keys hold {} KiB of unfinished uploads observes {:?} at step {} but alone it observes {:?}", n_blocks * n_keys, t_loaded.get(at), at, t_alone.get(at)))];
                    report(cx, &sess, problems);
                }
            }
            run_upload(cx, &Upload { shape: &post, ep: 1, m: 1152, body: body_of(&mut rng, 3 * (16usize << szx) + 5), szx, dups: vec![1], abandoned: None, dup_final: 0, fresh_tokens: false }, &mut sess);
            let mut sess2 = Session::new(1152, 60000);
            for k in 0..n_keys {
                let other = ReqShape { code: 2, path: vec![format!("bulk{}", k).into_bytes()], tok: vec![0x70 + k as u8], ..shape.clone() };
                for b in 0..n_blocks {
                    sess2.step(Op::Req(other_ep, other.spec((k * 100 + b) as u16, Some(bv_bytes(b, true, 6)), None, &vec![0x5A; 1024])));
                }
            }
            run_download(cx, &Download { shape, ep: 1, m: 1152, body: body_of(&mut rng, 2500), resp_opts: vec![], first_szx: Some(4), reduce_at: None, followup_toks: vec![] }, &mut sess2, true);
        }
    }
    // an upload onto a key that still holds a cached response (the client did not fetch the rest of an
    // earlier fragmented reply to the same method and path), the upload's requests carrying a Block2 option
    // too (early negotiation of the response size): the upload rules apply unchanged – 2.31 + Block1 echo for
    // a non-final block, 4.13 + Block1 hint for an oversized request without Block1
    for shape in shapes.iter().take(2) {
        for &(m, szx, b2szx) in &[(128usize, 0u8, 0u8), (128, 1, 0), (300, 2, 2), (1152, 4, 6)] {
            let post = ReqShape { code: 2, ..shape.clone() };
            let size = 16usize << szx;
            let body = body_of(&mut rng, 3000);
            let up = body_of(&mut rng, 2 * size);
            let mut sess = Session::new(m, 60000);
            let mut problems: Vec<(&'static str, String)> = vec![];
            sess.step(Op::Req(1, post.spec(1, None, None, &[])));
            let a = sess.step(Op::App(0x44, vec![], body.clone()));
            let ov = overhead_of(&post.spec(2, Some(bv_bytes(0, true, szx)), Some(bv_bytes(0, false, b2szx)), &[]).build());
            if a.outcome == Outcome::Ok(true) && m >= ov + 28 + size {
                let o = sess.step(Op::Req(1, post.spec(2, Some(bv_bytes(0, true, szx)), Some(bv_bytes(0, false, b2szx)), &up[..size])));
                let echo = o.resp.as_ref().and_then(|r| first_opt(r, 27)).and_then(|b| parse_bv(&b));
                let code = o.resp.as_ref().map(|r| u8::from(r.header.code));
                if o.outcome != Outcome::Ok(true) || code != Some(0x5f) || echo.map(|e| (e.0, e.2)) != Some((0, szx)) {
                    problems.push(("C09", format!("non-final upload block 0 (with a Block2 option, a response to an earlier exchange still cached) was not answered 2.31 with a Block1 echo: {} code {:?} Block1 {:?}", o.outcome.token(), code, echo)));
                }
                let big = sess.step(Op::Req(1, post.spec(3, None, Some(bv_bytes(0, false, b2szx)), &vec![0x42u8; m + 10])));
                let code = big.resp.as_ref().map(|r| u8::from(r.header.code));
                let hint = big.resp.as_ref().and_then(|r| first_opt(r, 27));
                if big.outcome != Outcome::Ok(true) || code != Some(0x8d) || hint.is_none() {
                    problems.push(("C09", format!("oversized request without Block1 (with a Block2 option, a response still cached) was not answered 4.13 with a Block1 hint: {} code {:?}", big.outcome.token(), code)));
                }
            }
            report(cx, &sess, problems);
        }
    }
    // a follow-up for a cached response arrives in a message that gets no reply prepared (type ACK / RST):
    // whatever the handler does, a reply never carries another exchange's message id or token
    for shape in shapes.iter().take(2) {
        for typ in [2u8, 3] {
            let body = body_of(&mut rng, 200);
            let mut sess = Session::new(64, 60000);
            let mut problems: Vec<(&'static str, String)> = vec![];
            sess.step(Op::Req(1, shape.spec(100, None, None, &[])));
            let a = sess.step(Op::App(0x45, vec![], body.clone()));
            if a.outcome == Outcome::Ok(true) {
                let odd = ReqShape { typ, tok: vec![0xCC], ..shape.clone() };
                let o = sess.step(Op::Req(1, odd.spec(101, None, Some(bv_bytes(1, false, 0)), &[])));
                if let Some(r) = &o.resp {
                    if r.header.message_id != 101 || r.get_token() != &[0xCC][..] {
                        problems.push(("C12", format!("a request without a prepared reply (type {}) got a reply carrying mid {} / token {} – those of the exchange that populated the cache – instead of its own 101 / cc", typ, r.header.message_id, hex(r.get_token()))));
                    }
                }
            }
            report(cx, &sess, problems);
        }
    }
    // a key whose transfer has completed asks for a later block again; the reply has grown
    for shape in &shapes {
        for &(m, szx) in &[(64usize, 1u8), (88, 2), (100, 2), (128, 2), (160, 3), (300, 4), (1152, 6)] {
            for &grow in &[0usize, 6, 14, 30] {
                for &num in &[1usize, 2] {
                    for tok2 in [shape.tok.clone(), vec![0xC3; 8]] {
                        let size = 16usize << szx;
                        let body1 = body_of(&mut rng, 2 * size + 5);
                        let body2 = body_of(&mut rng, 4 * size + 3);
                        run_resume(cx, shape, m, szx, &body1, &body2, grow, tok2, num);
                    }
                }
            }
        }
    }
    // uploads whose later block carries more options
    for shape in &shapes {
        for &(m, szx) in &[(100usize, 2u8), (128, 2), (200, 3), (300, 4), (1152, 6)] {
            for extra in [0usize, 10, 30, 60] {
                let body = body_of(&mut rng, 4 * (16usize << szx));
                run_upload_growing(cx, shape, m, szx, extra, &body);
            }
        }
    }
    let nr = if thorough { 6000 } else { 800 };
    for _ in 0..nr {
        let shape = rng.pick(&shapes).clone();
        let m = rng.range(40, 1280) as usize;
        let len = match rng.below(4) {
            0 => rng.below(50),
            1 => rng.below(3000),
            _ => rng.below(400),
        } as usize;
        let body = body_of(&mut rng, len);
        let pref = if rng.chance(1, 2) { Some(rng.below(7) as u8) } else { None };
        let reduce = if rng.chance(1, 3) { Some((rng.range(1, 3) as usize, rng.below(3) as u8)) } else { None };
        let mut sess = Session::new(m, 60000);
        run_download(cx, &Download { shape: &shape, ep: 1, m, body, resp_opts: if rng.chance(1, 3) { vec![(12, vec![60])] } else { vec![] }, first_szx: pref, reduce_at: reduce, followup_toks: vec![] }, &mut sess, rng.chance(1, 2));
    }

    // ---- B. Block1 uploads
    for szx in 0..=6u8 {
        let size = 16usize << szx;
        let mut lens: Vec<usize> = vec![0, 1, size - 1, size, size + 1, 2 * size - 1, 2 * size, 2 * size + 1, 3 * size, 3 * size + 7];
        if thorough {
            lens.extend([4 * size, 5 * size - 1]);
        }
        for &len in &lens {
            if len > 5000 {
                continue;
            }
            for (k, dups) in [vec![1usize], vec![2], vec![1, 3, 2]].iter().enumerate() {
                for aband in [None, Some(3usize), Some(6)] {
                    if !thorough && k == 2 && aband == Some(3) {
                        continue;
                    }
                    let shape = &shapes[(len + k) % 3];
                    let ov = overhead_of(&shape.spec(1, Some(bv_bytes(1, true, szx)), None, &[]).build());
                    let m = (ov + 12 + size + (len % 7)).min(1280);
                    if m < ov + 12 + size {
                        continue;
                    }
                    let body = body_of(&mut rng, len);
                    let abandoned = aband.map(|n| (body_of(&mut rng, 8 * (16usize << ((szx + 1) % 3))), (szx + 1) % 3, n));
                    let mut sess = Session::new(m, 60000);
                    run_upload(cx, &Upload { shape, ep: 1, m, body, szx, dups: dups.clone(), abandoned, dup_final: 0, fresh_tokens: false }, &mut sess);
                }
            }
        }
    }
    cx.exhaustive.push("Block1 uploads at every size exponent 0..6 x body lengths around block multiples x duplicate patterns x abandoned prefixes of 0/3/6 blocks".into());
    // long uploads at the smallest size: block numbers past 15 (scalar >= 256, two-byte option values)
    for len in [16 * 16 + 5, 16 * 17, 16 * 17 + 9, 16 * 33 + 1] {
        let mut sess = Session::new(64, 60000);
        run_upload(cx, &Upload { shape: &shapes[0], ep: 1, m: 64, body: body_of(&mut rng, len), szx: 0, dups: vec![1, 2], abandoned: None, dup_final: 0, fresh_tokens: false }, &mut sess);
    }
    // every block is its own exchange with a fresh token (and token length)
    for (len, szx) in [(40usize, 0u8), (100, 1), (700, 3), (16 * 5 + 3, 0)] {
        let shape = &shapes[1];
        let ov = overhead_of(&ReqShape { tok: vec![0; 8], ..shape.clone() }.spec(1, Some(bv_bytes(1, true, szx)), None, &[]).build());
        let m = ov + 12 + (16usize << szx) + 3;
        let mut sess = Session::new(m, 60000);
        run_upload(cx, &Upload { shape, ep: 1, m, body: body_of(&mut rng, len), szx, dups: vec![1, 2], abandoned: None, dup_final: 0, fresh_tokens: true }, &mut sess);
    }
    // final upload block that also carries a Block2 size wish (RFC 7959 3.3), reply large enough to fragment
    for (m, up_szx, want_szx) in [(100usize, 1u8, 0u8), (128, 2, 0), (300, 3, 1), (1152, 4, 2)] {
        let shape = &shapes[2];
        let usize_ = 16usize << up_szx;
        let body = body_of(&mut rng, 2 * usize_);
        let mut sess = Session::new(m, 60000);
        let mut problems: Vec<(&'static str, String)> = vec![];
        sess.step(Op::Req(1, shape.spec(1, Some(bv_bytes(0, true, up_szx)), None, &body[..usize_])));
        let o = sess.step(Op::Req(1, shape.spec(2, Some(bv_bytes(1, false, up_szx)), Some(bv_bytes(0, false, want_szx)), &body[usize_..])));
        if o.outcome == Outcome::Ok(false) {
            let reply = body_of(&mut rng, 500);
            let a = sess.step(Op::App(0x44, vec![], reply.clone()));
            let ovr = {
                let mut p = Packet::new();
                p.set_token(shape.tok.clone());
                overhead_of(&p) + 3
            };
            if let (Outcome::Ok(_), Some(r)) = (&a.outcome, &a.resp) {
                if let Some((num, _, szx)) = first_opt(r, 23).and_then(|b| parse_bv(&b)) {
                    let want = 16usize << want_szx;
                    if (16usize << szx) > want {
                        problems.push(("C10", format!("reply to the final upload block uses {}-byte blocks, the client asked for {}", 16usize << szx, want)));
                    }
                    if want + ovr + 32 <= m && szx != want_szx {
                        problems.push(("C10", format!("client's Block2 size {} fits the budget {} with room to spare but {} was used", want, m, 16usize << szx)));
                    }
                    if num != 0 {
                        problems.push(("C08", "first block of the reply is not block 0".into()));
                    }
                }
            }
        }
        report(cx, &sess, problems);
    }
    // K1 (known finding): final block delivered twice
    for len in [10usize, 40] {
        let mut sess = Session::new(64, 60000);
        run_upload(cx, &Upload { shape: &shapes[0], ep: 1, m: 64, body: body_of(&mut rng, len), szx: 0, dups: vec![1], abandoned: None, dup_final: 1, fresh_tokens: false }, &mut sess);
    }
    // too-large requests without Block1 -> 4.13 with a Block1 hint
    for shape in &shapes {
        for m in [40usize, 64, 100, 300, 1152] {
            let ov = overhead_of(&shape.spec(1, None, None, &[]).build());
            if m < ov + 12 + 16 {
                continue;
            }
            for d in [-2i64, -1, 0, 1, 50] {
                let pl = (m as i64 - ov as i64 - 12 + d).max(0) as usize;
                let mut sess = Session::new(m, 60000);
                let o = sess.step(Op::Req(1, shape.spec(7, None, None, &vec![3u8; pl])));
                let line = sess.emit(cx);
                let too_large = pl >= m - ov - 12;
                let b1 = o.resp.as_ref().and_then(|r| first_opt(r, 27)).and_then(|b| parse_bv(&b));
                if too_large {
                    let ok = o.outcome == Outcome::Ok(true) && o.resp.as_ref().map(|r| u8::from(r.header.code)) == Some(0x8D) && b1.is_some();
                    if !ok {
                        cx.oracle_fail("C09", &line, &format!("request with {} payload bytes (budget {}, overhead {}) and no Block1 was not answered 4.13 with a Block1 hint: {}", pl, m, ov, o.outcome.token()));
                    }
                    if let Some((_, _, szx)) = b1 {
                        if (16usize << szx) + ov + 12 > m {
                            cx.oracle_fail("C10", &line, &format!("4.13 hints block size {} which does not fit the budget {}", 16usize << szx, m));
                        }
                    }
                } else if o.outcome != Outcome::Ok(false) {
                    cx.oracle_fail("C09", &line, &format!("request that fits the budget was not passed on: {}", o.outcome.token()));
                }
            }
        }
    }

    // … whatever the request code is (all seven methods, unnamed request codes, even codes of other classes)
    for code in [1u8, 2, 3, 4, 5, 6, 7, 8, 31, 0x45, 0xA0] {
        let shape = ReqShape { code, ..shapes[0].clone() };
        let m = 100usize;
        let ov = overhead_of(&shape.spec(1, None, None, &[]).build());
        for d in [-1i64, 0, 30] {
            let pl = (m as i64 - ov as i64 - 12 + d).max(0) as usize;
            let mut sess = Session::new(m, 60000);
            let o = sess.step(Op::Req(1, shape.spec(7, None, None, &vec![3u8; pl])));
            let line = sess.emit(cx);
            let b1 = o.resp.as_ref().and_then(|r| first_opt(r, 27)).and_then(|b| parse_bv(&b));
            if pl >= m - ov - 12 {
                let ok = o.outcome == Outcome::Ok(true) && o.resp.as_ref().map(|r| u8::from(r.header.code)) == Some(0x8D) && b1.is_some();
                if !ok && o.resp.is_some() {
                    cx.oracle_fail("C09", &line, &format!("request (code byte {}) with {} payload bytes (budget {}, overhead {}) and no Block1 was not answered 4.13 with a Block1 hint: {}", code, pl, m, ov, o.outcome.token()));
                }
            } else if o.outcome != Outcome::Ok(false) {
                cx.oracle_fail("C09", &line, &format!("request (code byte {}) that fits the budget was not passed on: {}", code, o.outcome.token()));
            }
        }
    }
    // requests without a source (`source: None`, e.g. built by hand): served like any other endpoint,
    // under their own key
    for (ep_a, ep_b) in [(255u8, 255u8), (255, 1), (1, 255)] {
        let body = body_of(&mut rng, 100);
        let shape = &shapes[0];
        let mut sess = Session::new(64, 60000);
        run_download(cx, &Download { shape, ep: ep_a, m: 64, body: body.clone(), resp_opts: vec![], first_szx: Some(0), reduce_at: None, followup_toks: vec![] }, &mut sess, true);
        let mut sess = Session::new(1152, 60000);
        run_upload(cx, &Upload { shape: &shapes[1], ep: ep_a, m: 1152, body: body.clone(), szx: 0, dups: vec![1], abandoned: None, dup_final: 0, fresh_tokens: false }, &mut sess);
        if ep_a != ep_b {
            let s1 = download_script(shape, ep_a, &body[..70], 0, 10);
            let s2 = download_script(shape, ep_b, &body[30..90], 0, 40);
            run_interleavings(cx, &s1, &s2, 48);
        }
    }

    // ---- C. hostile traffic
    // directed: a rejected far-offset block in the middle of an upload must not disturb it
    // … also when block 0 announced a total size (Size1 / Size2 / both, as a minimal uint) that covers the
    // far block: an announcement is an estimate, not a licence to buffer
    let announce: Vec<Vec<(u16, Vec<u8>)>> = vec![
        vec![],
        vec![(60, vec![0x01, 0x00, 0x00, 0x00])],
        vec![(60, vec![0xFF, 0xFF, 0xFF, 0xFF])],
        vec![(28, vec![0x08, 0x00, 0x00])],
        vec![(60, vec![0x40, 0x00, 0x00]), (28, vec![0x40, 0x00, 0x00])],
    ];
    for (ai, (szx, far_num, far_szx)) in [(0u8, 4095usize, 6u8), (1, 2000, 6), (0, 65535, 7), (2, 300, 6), (6, 17, 6), (6, 18, 6), (6, 900, 6), (3, 140, 3), (4, 2000, 4)]
        .iter()
        .cloned()
        .flat_map(|t| (0..5usize).map(move |a| (a, t)))
    {
        let size = 16usize << szx;
        let body = body_of(&mut rng, 2 * size + 9);
        let mut shape_a = shapes[1].clone();
        shape_a.extra.extend(announce[ai].iter().cloned());
        let shape = &shape_a;
        let mut sess = Session::new(1152, 60000);
        let mut problems: Vec<(&'static str, String)> = vec![];
        sess.step(Op::Req(1, shape.spec(1, Some(bv_bytes(0, true, szx)), None, &body[..size])));
        sess.step(Op::Req(1, shape.spec(2, Some(bv_bytes(1, true, szx)), None, &body[size..2 * size])));
        let h = sess.step(Op::Req(1, shape.spec(3, Some(bv_bytes(far_num, true, far_szx)), None, &[0xEE; 32])));
        // exactly at the reserve (jump == 16 KiB) the block is legitimately accepted: boundary case,
        // compared with the model only
        if ((far_num + 1) * (16usize << far_szx)).saturating_sub(2 * size) <= 16384 {
            report(cx, &sess, problems);
            continue;
        }
        if !matches!(h.outcome, Outcome::Herr(Some(c)) if c >= 0x80) {
            problems.push(("C11", format!("far-offset block {} was not rejected with a renderable error: {}", far_num, h.outcome.token())));
        }
        if h.peek.as_ref().and_then(|p| p.buf) != Some(2 * size) {
            problems.push(("C11", format!("rejected far-offset block changed the buffered upload: {:?} bytes instead of {}", h.peek.as_ref().and_then(|p| p.buf), 2 * size)));
        }
        let f = sess.step(Op::Req(1, shape.spec(4, Some(bv_bytes(2, false, szx)), None, &body[2 * size..])));
        if f.outcome != Outcome::Ok(false) || f.req_payload != body {
            problems.push(("C11", "upload interrupted by a rejected far-offset block did not complete with the original body".into()));
        }
        report(cx, &sess, problems);
    }
    let nh = if thorough { 60000 } else { 8000 };
    for _ in 0..nh {
        run_hostile(cx, &mut rng, &shapes);
    }
    // "climbing" uploads: a chain of Block1 requests (never block 0) at growing offsets with payloads
    // larger than the announced block, so that the buffer's length, the jump needed and the payload
    // size are all in play at once; every step must respect the growth bound
    let nclimb = if thorough { 6000 } else { 1500 };
    for ci in 0..nclimb {
        let shape = &shapes[1];
        let mut sess = Session::new(5000, 60000);
        let mut problems: Vec<(&'static str, String)> = vec![];
        let steps = rng.range(2, 6);
        for _ in 0..steps {
            let szx = rng.below(7) as u8;
            let size = 16usize << szx;
            let before = sess.outs.iter().rev().find_map(|o| o.peek.as_ref().and_then(|p| p.buf)).unwrap_or(0);
            // aim the jump around the 16 KiB reserve
            let target_jump = match rng.below(4) {
                0 => rng.range(0, 2000) as usize,
                1 => 16384usize.saturating_sub(rng.below(40) as usize),
                2 => 16384 + rng.range(1, 1300) as usize,
                _ => rng.range(8000, 30000) as usize,
            };
            let mut num = ((before + target_jump).saturating_sub(size)) / size;
            if num == 0 {
                num = 1;
            }
            let plen = *rng.pick(&[0usize, 1, 16, 100, 512, 1100, 1200]);
            let mut spec = shape.spec((ci % 60000) as u16, Some(bv_bytes(num.min(65535), true, szx)), None, &vec![0x77u8; plen]);
            spec.vtt = 0x40; // confirmable, empty token
            spec.tok = vec![];
            let o = sess.step(Op::Req(1, spec));
            let after = o.peek.as_ref().and_then(|p| p.buf).unwrap_or(before);
            let needed = (num.min(65535) * size + size).saturating_sub(before);
            if after > before + 16384 + plen {
                problems.push(("C11", format!("one request grew the buffered upload from {} to {} bytes (payload {})", before, after, plen)));
            }
            if needed > 16384 && (o.outcome == Outcome::Ok(true) || after != before) {
                problems.push(("C11", format!("block {} (size {}) lies {} bytes beyond the buffered data (more than the 16 KiB reserve) but was not rejected / changed the buffer ({} -> {})", num, size, needed, before, after)));
            }
            if o.outcome == Outcome::Panic {
                problems.push(("C11", "intercept_request panicked".into()));
            }
        }
        report(cx, &sess, problems);
    }

    // ---- D. interleavings of two transfers differing in exactly one key component
    let base = ReqShape { typ: 0, code: 1, tok: vec![1], path: vec![b"a".to_vec(), b"b".to_vec()], extra: vec![] };
    let variants: Vec<(ReqShape, u8, &str)> = vec![
        (base.clone(), 2, "endpoint"),
        (ReqShape { code: 2, ..base.clone() }, 1, "method"),
        (ReqShape { path: vec![b"a/b".to_vec()], ..base.clone() }, 1, "segmentation"),
        (ReqShape { path: vec![b"a".to_vec()], ..base.clone() }, 1, "prefix"),
        (ReqShape { path: vec![b"a".to_vec(), b"b".to_vec(), b"c".to_vec()], ..base.clone() }, 1, "longer path"),
        (ReqShape { path: vec![b"a\x1fb".to_vec()], ..base.clone() }, 1, "unit separator inside a segment"),
        (ReqShape { path: vec![b"a\x00b".to_vec()], ..base.clone() }, 1, "NUL inside a segment"),
        (ReqShape { path: vec![b"a,b".to_vec()], ..base.clone() }, 1, "comma inside a segment"),
        (ReqShape { path: vec![b"a".to_vec(), b"".to_vec(), b"b".to_vec()], ..base.clone() }, 1, "empty middle segment"),
        (ReqShape { path: vec![b"a b".to_vec()], ..base.clone() }, 1, "space inside a segment"),
        (ReqShape { path: vec![b"a".to_vec(), b"b".to_vec(), b"".to_vec()], ..base.clone() }, 1, "trailing empty segment"),
        (ReqShape { path: vec![b"".to_vec(), b"a".to_vec(), b"b".to_vec()], ..base.clone() }, 1, "leading empty segment"),
        (ReqShape { path: vec![b"a".to_vec(), b"b".to_vec(), b"".to_vec(), b"".to_vec()], ..base.clone() }, 1, "two trailing empty segments"),
        (ReqShape { path: vec![b"A".to_vec(), b"b".to_vec()], ..base.clone() }, 1, "letter case"),
        (ReqShape { path: vec![b"a".to_vec(), b"b".to_vec()], extra: vec![(15, b"x=1".to_vec())], ..base.clone() }, 2, "endpoint (with a query)"),
        // a shorter path whose OTHER options spell the missing segment: /a?b, ?a&b, /a with Location-Path b
        (ReqShape { path: vec![b"a".to_vec()], extra: vec![(15, b"b".to_vec())], ..base.clone() }, 1, "prefix + query equal to the missing segment"),
        (ReqShape { path: vec![], extra: vec![(15, b"a".to_vec()), (15, b"b".to_vec())], ..base.clone() }, 1, "no path, queries equal to the segments"),
        (ReqShape { path: vec![b"a".to_vec()], extra: vec![(8, b"b".to_vec())], ..base.clone() }, 1, "prefix + Location-Path equal to the missing segment"),
        (ReqShape { path: vec![b"b".to_vec()], extra: vec![(3, b"a".to_vec())], ..base.clone() }, 1, "Uri-Host + path"),
    ];
    let body1 = body_of(&mut rng, 70);
    let body2 = body_of(&mut rng, 60);
    for (v, ep2, _what) in &variants {
        let pairs: Vec<(Script, Script)> = vec![
            (download_script(&base, 1, &body1, 0, 10), download_script(v, *ep2, &body2, 0, 40)),
            (download_script(&base, 1, &body1, 0, 10), upload_script(&ReqShape { code: if v.code == 1 { 3 } else { v.code }, ..v.clone() }, *ep2, &body2, 0, 40)),
            (upload_script(&ReqShape { code: 3, ..base.clone() }, 1, &body1, 0, 10), upload_script(&ReqShape { code: if v.code == 1 { 3 } else { 4 }, ..v.clone() }, *ep2, &body2, 0, 40)),
        ];
        for (s1, s2) in &pairs {
            run_interleavings(cx, s1, s2, 48);
        }
        // what the application answers one transfer with (2.01 … 5.03) must not matter to the other
        for (c1, c2) in [(0x45u8, 0x44u8), (0x45, 0x42), (0x44, 0x45), (0x42, 0x44), (0x45, 0x41), (0x45, 0x43), (0x45, 0x5f), (0x45, 0x84), (0x45, 0xa0), (0x84, 0x45)] {
            let s1 = download_script(&base, 1, &body1, 0, 10).with_code(c1);
            let s2 = upload_script(&ReqShape { code: if v.code == 1 { 3 } else { v.code }, ..v.clone() }, *ep2, &body2[..20], 0, 40).with_code(c2);
            run_interleavings(cx, &s1, &s2, 48);
            let s2 = download_script(v, *ep2, &body2[..20], 0, 40).with_code(c2);
            run_interleavings(cx, &s1, &s2, 48);
        }
        // the two transfers use the SAME message ids and tokens (ids and tokens are scoped per
        // endpoint; identical devices start with identical counters)
        let s1 = download_script(&base, 1, &body1, 0, 10);
        let s2 = download_script(v, *ep2, &body2, 0, 10);
        run_interleavings(cx, &s1, &s2, 48);
        let s1 = upload_script(&ReqShape { code: 3, ..base.clone() }, 1, &body1, 0, 10);
        let s2 = upload_script(&ReqShape { code: if v.code == 1 { 3 } else { 4 }, ..v.clone() }, *ep2, &body2, 0, 10);
        run_interleavings(cx, &s1, &s2, 48);
        // overlapping exchanges (request 1, request 2, reply 1, reply 2 and the other order), with
        // distinct and with equal message ids / tokens
        for midbase2 in [40u16, 10] {
            for second_first in [false, true] {
                run_pipelined(cx, &download_script(&base, 1, &body1, 0, 10), &download_script(v, *ep2, &body2, 0, midbase2), 48, second_first);
                run_pipelined(cx, &download_script(&base, 1, &body1, 0, 10), &upload_script(&ReqShape { code: if v.code == 1 { 3 } else { v.code }, ..v.clone() }, *ep2, &body2, 0, midbase2), 48, second_first);
            }
        }
    }
    // paths whose segments are not UTF-8 (the key holds the raw segments; nothing may go through a text view
    // of the path): two such paths, such a path and the root path, such a path and its lossy rendering
    for (pa, pb) in [
        (vec![vec![0xffu8]], vec![vec![0xfeu8]]),
        (vec![vec![0xff], b"a".to_vec()], vec![vec![0x80], b"a".to_vec()]),
        (vec![vec![0xff]], vec![]),
        (vec![vec![0xc3, 0x28]], vec!["\u{fffd}(".as_bytes().to_vec()]),
        (vec![b"a".to_vec(), vec![0xff]], vec![b"a".to_vec()]),
    ] {
        let sa = ReqShape { path: pa.clone(), ..base.clone() };
        let sb = ReqShape { path: pb.clone(), ..base.clone() };
        run_interleavings(cx, &download_script(&sa, 1, &body1, 0, 10), &download_script(&sb, 1, &body2, 0, 40), 48);
        run_interleavings(cx, &upload_script(&ReqShape { code: 3, ..sa.clone() }, 1, &body1, 0, 10), &upload_script(&ReqShape { code: 3, ..sb.clone() }, 1, &body2, 0, 40), 48);
    }
    // request codes without a name (0.08 … 0.31), or of another class, are methods of their own too
    for (ca, cb) in [(8u8, 9u8), (8, 31), (10, 1), (31, 7), (0x45, 0x44), (8, 0xA0)] {
        let sa = ReqShape { code: ca, ..base.clone() };
        let sb = ReqShape { code: cb, ..base.clone() };
        run_interleavings(cx, &download_script(&sa, 1, &body1, 0, 10), &download_script(&sb, 1, &body2, 0, 40), 48);
        run_interleavings(cx, &upload_script(&sa, 1, &body1, 0, 10), &upload_script(&sb, 1, &body2, 0, 40), 48);
    }
    // ---- D2. every registered option as an extra request option (typed values of several magnitudes)
    //          on a small upload and a small download: options the handler does not interpret must not
    //          change what it does, and the ones it could interpret (Size1, Size2, ...) must not break the body
    {
        let reg = crate::tbl::load_registry();
        let nums: Vec<u16> = reg.tables.get("options").map(|t| t.keys().map(|k| *k as u16).collect()).unwrap_or_default();
        let body = body_of(&mut rng, 40);
        for &n in &nums {
            if n == 11 || n == 23 || n == 27 {
                continue;
            }
            for val in [vec![], vec![1u8], vec![40], vec![16], vec![120], vec![0x10, 0x00], vec![0xff, 0xff, 0xff, 0xff], b"text".to_vec()] {
                let shape = ReqShape { typ: 0, code: 2, tok: vec![7], path: vec![b"up".to_vec()], extra: vec![(n, val.clone())] };
                let ov = overhead_of(&shape.spec(1, Some(bv_bytes(1, true, 0)), None, &[]).build());
                let m = ov + 12 + 16 + 3;
                if m <= 1280 {
                    let mut sess = Session::new(m, 60000);
                    run_upload(cx, &Upload { shape: &shape, ep: 1, m, body: body.clone(), szx: 0, dups: vec![1], abandoned: None, dup_final: 0, fresh_tokens: false }, &mut sess);
                }
                let shape = ReqShape { code: 1, ..shape };
                let mut sess = Session::new(64, 60000);
                run_download(cx, &Download { shape: &shape, ep: 1, m: 64, body: body.clone(), resp_opts: vec![(n, val.clone())], first_szx: None, reduce_at: None, followup_toks: vec![] }, &mut sess, true);
                // … and the option only on the application's reply: the requests (first and follow-ups) do not
                // carry it, every block must repeat it all the same
                let plain = ReqShape { extra: vec![], ..shape.clone() };
                let mut sess = Session::new(64, 60000);
                run_download(cx, &Download { shape: &plain, ep: 1, m: 64, body: body.clone(), resp_opts: vec![(n, val.clone())], first_szx: None, reduce_at: None, followup_toks: vec![] }, &mut sess, true);
            }
        }
    }
    cx.exhaustive.push("all interleavings of 2 scripted transfers x 4 exchanges (downloads and uploads), pairwise differing in exactly one of endpoint / method / path segmentation / path prefix".into());

    // ---- E. cache lifetime under the deterministic clock
    for _ in 0..(if thorough { 40 } else { 8 }) {
        run_lifetime(cx, &mut rng, &shapes);
        run_keepalive(cx, &mut rng, &shapes);
        run_keepalive(cx, &mut rng, &shapes);
    }
    // the smallest expiries, zero included: "idle longer than the configured expiry" holds after any
    // positive idle time when the expiry is zero – the configured value is what counts, whatever it is
    for ttl in [0u64, 1, 2] {
        for idle in [1u64, 2, 3, 50, 119_000] {
            for kind in 0..2 {
                let shape = &shapes[0];
                let mut sess = Session::new(64, ttl);
                let mut problems: Vec<(&'static str, String)> = vec![];
                let body = body_of(&mut rng, 100);
                if kind == 0 {
                    sess.step(Op::Req(1, shape.spec(1, None, None, &[])));
                    sess.step(Op::App(0x45, vec![], body.clone()));
                } else {
                    sess.step(Op::Req(1, shape.spec(1, Some(bv_bytes(0, true, 0)), None, &body[..16])));
                }
                sess.step(Op::Tick(idle));
                if kind == 0 {
                    let o = sess.step(Op::Req(1, shape.spec(9, None, Some(bv_bytes(1, false, 0)), &[])));
                    let live = idle <= ttl;
                    if live != (o.outcome == Outcome::Ok(true)) {
                        problems.push(("C20", format!("cached response idle for {} ms under expiry {} ms: follow-up answered {}", idle, ttl, o.outcome.token())));
                    }
                } else {
                    let o = sess.step(Op::Req(1, shape.spec(9, Some(bv_bytes(1, false, 0)), None, &body[16..24])));
                    let want: Vec<u8> = if idle <= ttl { body[..24].to_vec() } else { [vec![0u8; 16], body[16..24].to_vec()].concat() };
                    if o.outcome != Outcome::Ok(false) || o.req_payload != want {
                        problems.push(("C20", format!("upload buffer idle for {} ms under expiry {} ms: final block delivered {} bytes, expected {}", idle, ttl, o.req_payload.len(), want.len())));
                    }
                }
                report(cx, &sess, problems);
            }
        }
    }
    // once expired, a follow-up for a LATER block reaches the application like a fresh request – for every method
    for code in [1u8, 2, 3, 4, 5, 6, 7, 9] {
        let shape = ReqShape { code, ..shapes[0].clone() };
        let mut sess = Session::new(64, 40);
        let mut problems: Vec<(&'static str, String)> = vec![];
        let body = body_of(&mut rng, 100);
        sess.step(Op::Req(1, shape.spec(1, None, None, &[])));
        let a = sess.step(Op::App(0x45, vec![], body.clone()));
        sess.step(Op::Tick(200));
        for num in [1usize, 3] {
            let o = sess.step(Op::Req(1, shape.spec(9 + num as u16, None, Some(bv_bytes(num, false, 0)), &[])));
            if a.outcome == Outcome::Ok(true) && o.outcome != Outcome::Ok(false) {
                problems.push(("C20", format!("method code {}: a follow-up for block {} after the cached response expired was not passed to the application like a fresh request: {}", code, num, o.outcome.token())));
            }
        }
        // … and the same for a key that never had any state
        let never = ReqShape { path: vec![b"never".to_vec()], ..shape.clone() };
        let o = sess.step(Op::Req(1, never.spec(30, None, Some(bv_bytes(2, false, 0)), &[])));
        if o.outcome != Outcome::Ok(false) {
            problems.push(("C08", format!("method code {}: a request naming block 2 for a key without state was not passed to the application: {}", code, o.outcome.token())));
        }
        report(cx, &sess, problems);
    }
    // retention with many intervening keys
    for n_other in [1usize, 50, 1100, 2000] {
        if !thorough && n_other > 1100 {
            continue;
        }
        let mut sess = Session::new(64, 3_600_000);
        let shape = &shapes[0];
        let body = body_of(&mut rng, 100);
        sess.step(Op::Req(1, shape.spec(1, None, None, &[])));
        sess.step(Op::App(0x45, vec![], body.clone()));
        for i in 0..n_other {
            let mut s = shape.clone();
            s.path = vec![format!("k{}", i).into_bytes()];
            sess.step(Op::Tick(1000));
            sess.step(Op::Req((i % 200) as u8 + 3, s.spec(i as u16, None, None, &[])));
        }
        let o = sess.step(Op::Req(1, shape.spec(9, None, Some(bv_bytes(1, false, 0)), &[])));
        let line = sess.emit(cx);
        if o.outcome != Outcome::Ok(true) || o.resp.as_ref().map(|r| r.payload.clone()) != Some(body[16..32].to_vec()) {
            cx.oracle_fail("C20", &line, &format!("cached response did not survive {} intervening requests on other keys within the expiry time", n_other));
            // the same observation is a follow-up block that was not served from the cache (C08) and a transfer
            // that does not observe what it observes alone (C12)
            cx.oracle_fail("C08", &line, &format!("after {} intervening requests on other keys the follow-up for block 1 was not served from the cache with bytes 16..32 of the body: {}", n_other, o.outcome.token()));
            cx.oracle_fail("C12", &line, &format!("a download does not observe the block it observes alone once {} other keys have been used in between: {}", n_other, o.outcome.token()));
        }
    }
    run_slow_app(cx, &mut rng, &shapes);
    run_splice_direct(cx);
    run_reclaim(cx, &shapes);
    let _ = (parse_val("-"), BlockValue::try_from(vec![]).is_ok(), ResponseType::Content);
}
