use crate::Ctx; pub fn run(_cx: &mut Ctx, _replay: Option<&str>) {}
