//! Domain PKT: `Packet` construction, `to_bytes*`, `from_bytes` – C01..C04.
//!
//! Line forms (see lean/CoapLite/Driver/Pkt.lean for the model side):
//!   PKT enc <lim> <pkt>       lim = none | default | <n>;  result: ok <hex> | err <Kind> | panic
//!   PKT rt <pkt>              encode unlimited, then decode: result: ok <dump> | err.. | panic
//!   PKT dec <hex>             decode, then re-encode unlimited: ok <dump> <hex|err Kind|panic> | err | panic
//!   PKT api <op;op;...>       API call sequence; result: <dump> <enc-none result> | panic
//! <pkt> = <vtt> <code> <mid> <tok> <n> (<num> <val>)*n <payload>
//! <val>/<payload>/<tok> = hex | - | r<len>x<hexbyte>
use crate::tbl::{header_first_byte, mtype};
use crate::{guarded, hex, unhex, Ctx, Rng};
use coap_lite::error::MessageError;
use coap_lite::{CoapOption, Header, HeaderRaw, MessageClass, Packet, RequestType, ResponseType};
use std::collections::{BTreeMap, LinkedList};
use std::convert::TryFrom;

// ------------------------------------------------------------------ helpers

pub fn val_token(v: &[u8]) -> String {
    // parts joined by '+': plain hex, or r<len>x<byte> for a run of > 64 equal bytes
    if v.is_empty() {
        return "-".to_string();
    }
    let mut parts: Vec<String> = vec![];
    let mut plain: Vec<u8> = vec![];
    let mut i = 0;
    while i < v.len() {
        let mut j = i;
        while j < v.len() && v[j] == v[i] {
            j += 1;
        }
        if j - i > 64 {
            if !plain.is_empty() {
                parts.push(hex(&plain));
                plain.clear();
            }
            parts.push(format!("r{}x{:02x}", j - i, v[i]));
        } else {
            plain.extend_from_slice(&v[i..j]);
        }
        i = j;
    }
    if !plain.is_empty() {
        parts.push(hex(&plain));
    }
    parts.join("+")
}

pub fn parse_val(s: &str) -> Vec<u8> {
    let mut out = vec![];
    for part in s.split('+') {
        if let Some(rest) = part.strip_prefix('r') {
            let mut it = rest.split('x');
            let n: usize = it.next().unwrap().parse().unwrap();
            let b = u8::from_str_radix(it.next().unwrap(), 16).unwrap();
            out.extend(std::iter::repeat(b).take(n));
        } else {
            out.extend(unhex(part));
        }
    }
    out
}

#[derive(Clone, Debug, PartialEq)]
pub enum CodeSpec {
    Byte(u8),
    Reserved(u8),
    UnkReq,
    UnkResp,
}

impl CodeSpec {
    pub fn token(&self) -> String {
        match self {
            CodeSpec::Byte(b) => b.to_string(),
            CodeSpec::Reserved(b) => format!("R{}", b),
            CodeSpec::UnkReq => "UQ".into(),
            CodeSpec::UnkResp => "US".into(),
        }
    }
    pub fn parse(s: &str) -> CodeSpec {
        if s == "UQ" {
            CodeSpec::UnkReq
        } else if s == "US" {
            CodeSpec::UnkResp
        } else if let Some(r) = s.strip_prefix('R') {
            CodeSpec::Reserved(r.parse().unwrap())
        } else {
            CodeSpec::Byte(s.parse().unwrap())
        }
    }
    pub fn class(&self) -> MessageClass {
        match self {
            CodeSpec::Byte(b) => MessageClass::from(*b),
            CodeSpec::Reserved(b) => MessageClass::Reserved(*b),
            CodeSpec::UnkReq => MessageClass::Request(RequestType::UnKnown),
            CodeSpec::UnkResp => MessageClass::Response(ResponseType::UnKnown),
        }
    }
    pub fn byte(&self) -> u8 {
        match self {
            CodeSpec::Byte(b) | CodeSpec::Reserved(b) => *b,
            _ => 0xFF,
        }
    }
}

/// structural description of a message (what the line carries)
#[derive(Clone, Debug)]
pub struct PktSpec {
    pub vtt: u8,
    pub code: CodeSpec,
    pub mid: u16,
    pub tok: Vec<u8>,
    pub opts: Vec<(u16, Vec<u8>)>, // in add order
    pub payload: Vec<u8>,
}

impl PktSpec {
    pub fn line(&self) -> String {
        let mut s = format!(
            "{} {} {} {} {}",
            self.vtt,
            self.code.token(),
            self.mid,
            val_token(&self.tok),
            self.opts.len()
        );
        for (n, v) in &self.opts {
            s.push_str(&format!(" {} {}", n, val_token(v)));
        }
        s.push(' ');
        s.push_str(&val_token(&self.payload));
        s
    }
    /// build through the public API (may panic: token longer than 15 bytes)
    pub fn build(&self) -> Packet {
        let mut p = Packet::new();
        let raw = HeaderRaw::try_from(&[self.vtt, 0, (self.mid >> 8) as u8, self.mid as u8][..]).unwrap();
        p.header = Header::from_raw(&raw);
        p.header.code = self.code.class();
        p.set_token(self.tok.clone());
        p.header.set_token_length(self.vtt & 0x0F);
        for (n, v) in &self.opts {
            p.add_option(CoapOption::from(*n), v.clone());
        }
        p.payload = self.payload.clone();
        p
    }
    /// options as the abstract message has them: stable-sorted by number
    pub fn sorted_opts(&self) -> Vec<(u16, Vec<u8>)> {
        let mut o = self.opts.clone();
        o.sort_by_key(|x| x.0);
        o
    }
}

pub fn dump(p: &Packet) -> String {
    let mut s = format!(
        "v{} c{}/{:?} m{} t{} o[",
        header_first_byte(&p.header),
        u8::from(p.header.code),
        p.header.code,
        p.header.message_id,
        hex(p.get_token())
    );
    let mut first = true;
    for (n, l) in p.options() {
        if !first {
            s.push(';');
        }
        first = false;
        s.push_str(&format!("{}=", n));
        s.push_str(&l.iter().map(|v| val_token(v)).collect::<Vec<_>>().join(","));
    }
    s.push_str("] p");
    s.push_str(&val_token(&p.payload));
    s
}

pub fn errname(e: &MessageError) -> &'static str {
    match e {
        MessageError::InvalidHeader => "InvalidHeader",
        MessageError::InvalidPacketLength => "InvalidPacketLength",
        MessageError::InvalidTokenLength => "InvalidTokenLength",
        MessageError::InvalidOptionDelta => "InvalidOptionDelta",
        MessageError::InvalidOptionLength => "InvalidOptionLength",
    }
}

pub fn show_bytes(r: &Option<Result<Vec<u8>, MessageError>>) -> String {
    match r {
        None => "panic".into(),
        Some(Ok(b)) => format!("ok {}", val_token(b)),
        // only the packet-length error is named by a property (C04); other kinds are not compared
        Some(Err(MessageError::InvalidPacketLength)) => "err InvalidPacketLength".to_string(),
        Some(Err(_)) => "err Other".to_string(),
    }
}

// ------------------------------------------------- independent RFC 7252 §3 reference

fn rfc_field(x: usize, out_ext: &mut Vec<u8>) -> u8 {
    if x < 13 {
        x as u8
    } else if x < 269 {
        out_ext.push((x - 13) as u8);
        13
    } else {
        let y = x - 269;
        out_ext.push((y >> 8) as u8);
        out_ext.push((y & 0xff) as u8);
        14
    }
}

/// wire image of an abstract message, written from RFC 7252 §3 / §3.1
pub fn rfc_wire(vtt: u8, code: u8, mid: u16, tok: &[u8], opts: &[(u16, Vec<u8>)], payload: &[u8]) -> Vec<u8> {
    let mut w = vec![vtt, code, (mid >> 8) as u8, (mid & 0xff) as u8];
    w.extend_from_slice(tok);
    let mut prev = 0usize;
    for (n, v) in opts {
        let mut de = vec![];
        let mut le = vec![];
        let dn = rfc_field(*n as usize - prev, &mut de);
        let ln = rfc_field(v.len(), &mut le);
        w.push(dn << 4 | ln);
        w.extend(de);
        w.extend(le);
        w.extend_from_slice(v);
        prev = *n as usize;
    }
    if !payload.is_empty() {
        w.push(0xFF);
        w.extend_from_slice(payload);
    }
    w
}

pub fn rfc_len(tok: usize, opts: &[(u16, Vec<u8>)], payload_sent: usize) -> usize {
    let mut n = 4 + tok;
    let mut prev = 0usize;
    let f = |x: usize| if x < 13 { 0 } else if x < 269 { 1 } else { 2 };
    for (num, v) in opts {
        n += 1 + f(*num as usize - prev) + f(v.len()) + v.len();
        prev = *num as usize;
    }
    if payload_sent > 0 {
        n += 1 + payload_sent;
    }
    n
}

#[derive(Debug, Clone, PartialEq)]
pub struct RefFields {
    pub vtt: u8,
    pub code: u8,
    pub mid: u16,
    pub tok: Vec<u8>,
    pub opts: Vec<(u16, Vec<u8>)>,
    pub payload: Vec<u8>,
    pub marker: Option<usize>,
}

#[derive(Debug, Clone, PartialEq)]
pub enum RefVerdict {
    MustAccept(RefFields),
    /// RFC-conformant receivers may reject (version != 1, empty payload after
    /// marker, content in a 0.00 message); if accepted these are the fields
    Either(RefFields),
    MustReject(&'static str),
}

/// three-valued reference parser written from RFC 7252 §3
pub fn ref_parse(b: &[u8]) -> RefVerdict {
    if b.len() < 4 {
        return RefVerdict::MustReject("shorter than four bytes");
    }
    let tkl = (b[0] & 0x0f) as usize;
    if tkl > 8 {
        return RefVerdict::MustReject("token length 9-15");
    }
    if b.len() < 4 + tkl {
        return RefVerdict::MustReject("truncated token");
    }
    let mut pos = 4 + tkl;
    let mut num: usize = 0;
    let mut opts = vec![];
    let mut marker = None;
    let mut payload = vec![];
    while pos < b.len() {
        let h = b[pos];
        if h == 0xFF {
            marker = Some(pos);
            payload = b[pos + 1..].to_vec();
            break;
        }
        pos += 1;
        let mut fields = [(h >> 4) as usize, (h & 15) as usize];
        for (i, f) in fields.iter_mut().enumerate() {
            match *f {
                13 => {
                    if pos >= b.len() {
                        return RefVerdict::MustReject("truncated extended delta/length");
                    }
                    *f = b[pos] as usize + 13;
                    pos += 1;
                }
                14 => {
                    if pos + 1 >= b.len() {
                        return RefVerdict::MustReject("truncated extended delta/length");
                    }
                    *f = ((b[pos] as usize) << 8 | b[pos + 1] as usize) + 269;
                    pos += 2;
                }
                15 => {
                    return RefVerdict::MustReject(if i == 0 { "delta nibble 15" } else { "length nibble 15" });
                }
                _ => {}
            }
        }
        num += fields[0];
        if num > 65535 {
            return RefVerdict::MustReject("cumulative option number exceeds 65535");
        }
        if pos + fields[1] > b.len() {
            return RefVerdict::MustReject("truncated option value");
        }
        opts.push((num as u16, b[pos..pos + fields[1]].to_vec()));
        pos += fields[1];
    }
    let f = RefFields {
        vtt: b[0],
        code: b[1],
        mid: (b[2] as u16) << 8 | b[3] as u16,
        tok: b[4..4 + tkl].to_vec(),
        opts,
        payload,
        marker,
    };
    let lenient = (b[0] >> 6) != 1
        || (f.marker.is_some() && f.payload.is_empty())
        || (f.code == 0 && (tkl > 0 || !f.opts.is_empty() || f.marker.is_some()));
    if lenient {
        RefVerdict::Either(f)
    } else {
        RefVerdict::MustAccept(f)
    }
}

fn flat_opts(p: &Packet) -> Vec<(u16, Vec<u8>)> {
    let mut o = vec![];
    for (n, l) in p.options() {
        for v in l.iter() {
            o.push((*n, v.clone()));
        }
    }
    o
}

// ------------------------------------------------------------------ case runners

pub fn case_enc(cx: &mut Ctx, spec: &PktSpec, lim: Option<Option<usize>>) {
    case_trace(cx, spec, lim);
    // lim: None = to_bytes (default), Some(None) = unlimited, Some(Some(n)) = with_limit
    let limtok = match lim {
        // the default limit depends on the crate's `udp` feature (1280 / 64000)
        None => if cfg!(feature = "udp") { "defaultudp".to_string() } else { "default".to_string() },
        Some(None) => "none".to_string(),
        Some(Some(n)) => n.to_string(),
    };
    let line = format!("PKT enc {} {}", limtok, spec.line());
    let r = guarded(|| {
        let p = spec.build();
        match lim {
            None => p.to_bytes(),
            Some(None) => p.to_bytes_unlimited(),
            Some(Some(n)) => p.to_bytes_with_limit(n),
        }
    });
    cx.case(&line, &show_bytes(&r));
    // ---- direct oracles (C01 wire image, C04 limit) on well-formed specs only
    let tkl_ok = spec.tok.len() <= 8 && (spec.vtt & 15) as usize == spec.tok.len();
    let so = spec.sorted_opts();
    let too_long = so.iter().any(|(_, v)| v.len() > 65804);
    let sent = if spec.code.class() != MessageClass::Empty { spec.payload.len() } else { 0 };
    let explen = rfc_len(spec.tok.len(), &so, sent);
    let limit = match lim {
        None => Some(Packet::MAX_SIZE),
        Some(x) => x,
    };
    if !tkl_ok {
        // header and token out of step (the header was replaced after set_token, or the token
        // length was set by hand): there is no RFC image, but the size clause of C04 still
        // applies to the bytes that ARE written: 4 + token + options + payload
        if let (Some(res), false) = (&r, too_long) {
            let fits = limit.map_or(true, |l| explen <= l);
            match res {
                Ok(bytes) if !fits || bytes.len() != explen => cx.oracle_fail("C04", &line, &format!("{} bytes written, exact length {}, limit {:?}", bytes.len(), explen, limit)),
                Err(e) if fits => cx.oracle_fail("C04", &line, &format!("exact length {} is within limit {:?} but serialisation failed with {}", explen, limit, errname(e))),
                _ => {}
            }
        }
        return;
    }
    cx.nontrivial(&line);
    match &r {
        None => cx.oracle_fail("C04", &line, "serialiser panicked"),
        Some(res) => {
            if too_long {
                if res.is_ok() {
                    cx.oracle_fail("C04", &line, "option value longer than 65804 bytes was emitted instead of refused");
                }
                cx.stat("enc_value_too_long");
                return;
            }
            let fits = limit.map_or(true, |l| explen <= l);
            match res {
                Ok(bytes) => {
                    if !fits {
                        cx.oracle_fail("C04", &line, &format!("wire length {} exceeds limit {:?} but serialisation succeeded", explen, limit));
                    }
                    if bytes.len() != explen {
                        cx.oracle_fail("C04", &line, &format!("output has {} bytes, exact wire length is {}", bytes.len(), explen));
                    }
                    let pay: &[u8] = if sent > 0 { &spec.payload } else { &[] };
                    let want = rfc_wire(spec.vtt, spec.code.byte(), spec.mid, &spec.tok, &so, pay);
                    if *bytes != want {
                        let at = bytes.iter().zip(want.iter()).position(|(a, b)| a != b).unwrap_or(bytes.len().min(want.len()));
                        cx.oracle_fail("C01", &line, &format!("encoding differs from the RFC 7252 wire image at byte {} (got {} bytes, want {})", at, bytes.len(), want.len()));
                    }
                    cx.stat(if fits { "enc_ok" } else { "enc_ok_overlimit" });
                }
                Err(e) => {
                    if fits {
                        cx.oracle_fail("C04", &line, &format!("wire length {} is within limit {:?} but serialisation failed with {}", explen, limit, errname(e)));
                    } else if *e != MessageError::InvalidPacketLength {
                        cx.oracle_fail("C04", &line, &format!("over the limit but error is {} instead of InvalidPacketLength", errname(e)));
                    }
                    cx.stat("enc_err_limit");
                }
            }
            if let Some(l) = limit {
                let d = explen as i64 - l as i64;
                if d == -1 {
                    cx.stat("limit_minus_1");
                } else if d == 0 {
                    cx.stat("limit_exact");
                } else if d == 1 {
                    cx.stat("limit_plus_1");
                }
            }
        }
    }
}

/// the serialiser's reserve/copy events (hook); oracle (C04): every copy within the real capacity
pub fn case_trace(cx: &mut Ctx, spec: &PktSpec, lim: Option<Option<usize>>) {
    use coap_lite::verif::{take_copy_trace, CopyEvent};
    let limtok = match lim {
        None => if cfg!(feature = "udp") { "defaultudp".to_string() } else { "default".to_string() },
        Some(None) => "none".to_string(),
        Some(Some(n)) => n.to_string(),
    };
    let line = format!("PKT trace {} {}", limtok, spec.line());
    let r = guarded(|| {
        let p = spec.build();
        let _ = take_copy_trace();
        let _ = match lim {
            None => p.to_bytes(),
            Some(None) => p.to_bytes_unlimited(),
            Some(Some(n)) => p.to_bytes_with_limit(n),
        };
        take_copy_trace()
    });
    match r {
        None => cx.case(&line, "panic"),
        Some(evs) => {
            let mut toks = vec![];
            for e in &evs {
                match e {
                    CopyEvent::Reserve { len, additional } => toks.push(format!("R{}+{}", len, additional)),
                    CopyEvent::Copy { capacity, offset, count } => {
                        toks.push(format!("C{}+{}", offset, count));
                        if offset + count > *capacity {
                            cx.oracle_fail("C04", &line, &format!("raw-pointer copy of {} bytes to offset {} exceeds the vector's capacity {}", count, offset, capacity));
                        }
                    }
                }
            }
            cx.case(&line, &toks.join(" "));
            if !evs.is_empty() {
                cx.nontrivial(&line);
            }
            cx.stat_n("copy_events", evs.len() as u64);
        }
    }
}

/// reserve/copy events for a packet built through an API call sequence (cleared options!)
pub fn case_apitrace(cx: &mut Ctx, ops: &[Op]) {
    use coap_lite::verif::{take_copy_trace, CopyEvent};
    let line = format!("PKT apitrace {}", ops.iter().map(|o| o.token()).collect::<Vec<_>>().join(";"));
    let r = guarded(|| {
        let mut p = Packet::new();
        for o in ops {
            o.apply(&mut p);
        }
        let _ = take_copy_trace();
        let _ = p.to_bytes_unlimited();
        take_copy_trace()
    });
    match r {
        None => cx.case(&line, "panic"),
        Some(evs) => {
            let mut toks = vec![];
            for e in &evs {
                match e {
                    CopyEvent::Reserve { len, additional } => toks.push(format!("R{}+{}", len, additional)),
                    CopyEvent::Copy { capacity, offset, count } => {
                        toks.push(format!("C{}+{}", offset, count));
                        if offset + count > *capacity {
                            cx.oracle_fail("C04", &line, &format!("raw-pointer copy of {} bytes to offset {} exceeds the vector's capacity {}", count, offset, capacity));
                        }
                    }
                }
            }
            cx.case(&line, &toks.join(" "));
            cx.nontrivial(&line);
        }
    }
}

/// encode unlimited then decode; oracle: C01 round trip
pub fn case_rt(cx: &mut Ctx, spec: &PktSpec) {
    let line = format!("PKT rt {}", spec.line());
    let r = guarded(|| {
        let p = spec.build();
        p.to_bytes_unlimited().map(|b| Packet::from_bytes(&b))
    });
    let s = match &r {
        None => "panic".to_string(),
        Some(Err(_)) => "err".to_string(),
        Some(Ok(Err(_))) => "decerr".to_string(),
        Some(Ok(Ok(q))) => format!("ok {}", dump(q)),
    };
    cx.case(&line, &s);
    let tkl_ok = spec.tok.len() <= 8 && (spec.vtt & 15) as usize == spec.tok.len();
    let so = spec.sorted_opts();
    let too_long = so.iter().any(|(_, v)| v.len() > 65804);
    let code0_payload = spec.code.byte() == 0 && !spec.payload.is_empty();
    if !tkl_ok || too_long || code0_payload {
        return;
    }
    cx.nontrivial(&line);
    for (n, _) in &so {
        cx.stat(match *n {
            0..=12 => "opt_num_lit",
            13..=268 => "opt_num_ext8",
            _ => "opt_num_ext16",
        });
    }
    match &r {
        Some(Ok(Ok(q))) => {
            let same = header_first_byte(&q.header) == spec.vtt
                && u8::from(q.header.code) == spec.code.byte()
                && q.header.message_id == spec.mid
                && q.get_token() == &spec.tok[..]
                && flat_opts(q) == so
                && q.payload == spec.payload;
            if !same {
                cx.oracle_fail("C01", &line, &format!("decode(encode(m)) differs from m: got {}", dump(q)));
            }
        }
        _ => cx.oracle_fail("C01", &line, &format!("encode/decode of a well-formed message failed: {}", s)),
    }
}

/// decode, then re-encode without limit; oracles: C02 (lossless) and C03 (reference parser)
pub fn case_dec(cx: &mut Ctx, bytes: &[u8]) {
    let line = format!("PKT dec {}", val_token(bytes));
    let r = guarded(|| Packet::from_bytes(bytes));
    let verdict = ref_parse(bytes);
    match &r {
        None => {
            cx.case(&line, "panic");
            cx.oracle_fail("C03", &line, "parser panicked");
            if let RefVerdict::MustAccept(_) | RefVerdict::Either(_) = verdict {
                cx.oracle_fail("C02", &line, "parser panicked on a datagram the RFC framing admits");
            }
        }
        Some(Err(e)) => {
            cx.case(&line, "err");
            cx.stat(&format!("dec_err_{}", errname(e)));
            if let RefVerdict::MustAccept(_) = verdict {
                cx.oracle_fail("C03", &line, &format!("well-formed version-1 datagram rejected with {}", errname(e)));
            }
            if let RefVerdict::MustReject(why) = &verdict {
                cx.stat(&format!("reject_{}", why.replace(' ', "_")));
            }
        }
        Some(Ok(p)) => {
            let re = guarded(|| p.to_bytes_unlimited());
            cx.case(&line, &format!("ok {} | {}", dump(p), show_bytes(&re)));
            cx.nontrivial(&line);
            cx.stat("dec_ok");
            match &verdict {
                RefVerdict::MustReject(why) => {
                    cx.oracle_fail("C03", &line, &format!("malformed datagram accepted ({})", why));
                }
                RefVerdict::MustAccept(f) | RefVerdict::Either(f) => {
                    let same = header_first_byte(&p.header) == f.vtt
                        && u8::from(p.header.code) == f.code
                        && p.header.message_id == f.mid
                        && p.get_token() == &f.tok[..]
                        && flat_opts(p) == f.opts
                        && p.payload == f.payload;
                    if !same {
                        cx.oracle_fail("C03", &line, &format!("accepted but fields differ from the RFC 7252 grammar: {}", dump(p)));
                    }
                    // C02: canonical form of the input
                    let mut canon = bytes.to_vec();
                    if let Some(m) = f.marker {
                        if f.payload.is_empty() || f.code == 0 {
                            canon.truncate(m);
                        }
                    }
                    match &re {
                        Some(Ok(b2)) if *b2 == canon => {}
                        other => {
                            cx.oracle_fail("C02", &line, &format!("re-encoding gives {} instead of the input", show_bytes(other)));
                        }
                    }
                    if matches!(verdict, RefVerdict::Either(_)) {
                        cx.stat("dec_ok_lenient");
                    }
                }
            }
        }
    }
}

// API sessions -----------------------------------------------------------

#[derive(Clone, Debug)]
pub enum Op {
    Ver(u8),
    Typ(u8),
    Tkl(u8),
    Tok(Vec<u8>),
    Add(u16, Vec<u8>),
    Set(u16, Vec<Vec<u8>>),
    Clr(u16),
    ClrAll,
    Code(CodeSpec),
    Mid(u16),
    Pay(Vec<u8>),
}

impl Op {
    pub fn token(&self) -> String {
        match self {
            Op::Ver(v) => format!("ver {}", v),
            Op::Typ(t) => format!("typ {}", t),
            Op::Tkl(n) => format!("tkl {}", n),
            Op::Tok(t) => format!("tok {}", val_token(t)),
            Op::Add(n, v) => format!("add {} {}", n, val_token(v)),
            Op::Set(n, vs) => format!(
                "set {} {}",
                n,
                if vs.is_empty() { "_".to_string() } else { vs.iter().map(|v| val_token(v)).collect::<Vec<_>>().join(",") }
            ),
            Op::Clr(n) => format!("clr {}", n),
            Op::ClrAll => "clrall".into(),
            Op::Code(c) => format!("code {}", c.token()),
            Op::Mid(m) => format!("mid {}", m),
            Op::Pay(p) => format!("pay {}", val_token(p)),
        }
    }
    pub fn apply(&self, p: &mut Packet) {
        match self {
            Op::Ver(v) => p.header.set_version(*v),
            Op::Typ(t) => p.header.set_type(mtype(*t as u64)),
            Op::Tkl(n) => p.header.set_token_length(*n),
            Op::Tok(t) => p.set_token(t.clone()),
            Op::Add(n, v) => p.add_option(CoapOption::from(*n), v.clone()),
            Op::Set(n, vs) => {
                let l: LinkedList<Vec<u8>> = vs.iter().cloned().collect();
                p.set_option(CoapOption::from(*n), l)
            }
            Op::Clr(n) => p.clear_option(CoapOption::from(*n)),
            Op::ClrAll => p.clear_all_options(),
            Op::Code(c) => p.header.code = c.class(),
            Op::Mid(m) => p.header.message_id = *m,
            Op::Pay(x) => p.payload = x.clone(),
        }
    }
}

/// reference semantics of the builder API: last write wins per header field,
/// per option number the values in call order
#[derive(Clone)]
struct RefMsg {
    ver: u8,
    typ: u8,
    tkl: u8,
    code: u8,
    mid: u16,
    tok: Vec<u8>,
    opts: BTreeMap<u16, Vec<Vec<u8>>>,
    pay: Vec<u8>,
    code_is_empty_variant: bool,
}

pub fn case_api(cx: &mut Ctx, ops: &[Op]) {
    case_apitrace(cx, ops);
    let line = format!("PKT api {}", ops.iter().map(|o| o.token()).collect::<Vec<_>>().join(";"));
    let r = guarded(|| {
        let mut p = Packet::new();
        for o in ops {
            o.apply(&mut p);
        }
        let e = p.to_bytes_unlimited();
        (p, e)
    });
    match &r {
        None => cx.case(&line, "panic"),
        Some((p, e)) => cx.case(&line, &format!("{} | {}", dump(p), show_bytes(&Some(e.clone_result())))),
    }
    // reference
    let mut m = RefMsg { ver: 1, typ: 0, tkl: 0, code: 1, mid: 0, tok: vec![], opts: BTreeMap::new(), pay: vec![], code_is_empty_variant: false };
    let mut must_panic = false;
    for o in ops {
        match o {
            Op::Ver(v) => m.ver = v & 3,
            Op::Typ(t) => m.typ = *t,
            Op::Tkl(n) => {
                if n & 0xF0 != 0 {
                    must_panic = true;
                    break;
                }
                m.tkl = *n
            }
            Op::Tok(t) => {
                if (t.len() as u8) & 0xF0 != 0 {
                    must_panic = true;
                    break;
                }
                m.tkl = t.len() as u8;
                m.tok = t.clone()
            }
            Op::Add(n, v) => m.opts.entry(*n).or_default().push(v.clone()),
            Op::Set(n, vs) => {
                m.opts.insert(*n, vs.clone());
            }
            Op::Clr(n) => {
                if let Some(l) = m.opts.get_mut(n) {
                    l.clear()
                }
            }
            Op::ClrAll => m.opts.clear(),
            Op::Code(c) => {
                m.code = c.byte();
                m.code_is_empty_variant = c.class() == MessageClass::Empty
            }
            Op::Mid(x) => m.mid = *x,
            Op::Pay(x) => m.pay = x.clone(),
        }
    }
    if must_panic {
        return; // documented assertion of the API; nothing to compare
    }
    let wf = m.tok.len() <= 8 && m.tkl as usize == m.tok.len() && !(m.code == 0 && !m.pay.is_empty());
    let flat: Vec<(u16, Vec<u8>)> = m.opts.iter().flat_map(|(n, l)| l.iter().map(move |v| (*n, v.clone()))).collect();
    if !wf || flat.iter().any(|(_, v)| v.len() > 65804) {
        return;
    }
    cx.nontrivial(&line);
    let vtt = m.ver << 6 | m.typ << 4 | m.tkl;
    let want = rfc_wire(vtt, m.code, m.mid, &m.tok, &flat, &m.pay);
    // C05 through the encoder: the option numbers an independent parser reads off the wire are the
    // numbers of the options that were added (no option goes out under another option's number)
    if let Some((_, Ok(b))) = &r {
        let wire_nums: Option<Vec<u16>> = match ref_parse(b) {
            RefVerdict::MustAccept(f) | RefVerdict::Either(f) => Some(f.opts.iter().map(|(n, _)| *n).collect()),
            RefVerdict::MustReject(_) => None,
        };
        let added: Vec<u16> = flat.iter().map(|(n, _)| *n).collect();
        if wire_nums.as_ref() != Some(&added) {
            cx.oracle_fail("C05", &line, &format!("options {:?} were set but the encoded message carries option numbers {:?}", added, wire_nums));
        }
    }
    match &r {
        Some((_, Ok(b))) if *b == want => {
            // and decode back
            match guarded(|| Packet::from_bytes(b)) {
                Some(Ok(q)) => {
                    let same = header_first_byte(&q.header) == vtt
                        && u8::from(q.header.code) == m.code
                        && q.header.message_id == m.mid
                        && q.get_token() == &m.tok[..]
                        && flat_opts(&q) == flat
                        && q.payload == m.pay;
                    if !same {
                        cx.oracle_fail("C01", &line, &format!("message built through the API decodes back as {}", dump(&q)));
                    }
                }
                _ => cx.oracle_fail("C01", &line, "encoding of an API-built message does not parse"),
            }
        }
        Some((_, other)) => cx.oracle_fail(
            "C01",
            &line,
            &format!("API-built message encodes as {} instead of the RFC image {}", show_bytes(&Some(other.clone_result())), val_token(&want)),
        ),
        None => cx.oracle_fail("C01", &line, "building/encoding a well-formed message panicked"),
    }
}

trait CloneResult {
    fn clone_result(&self) -> Result<Vec<u8>, MessageError>;
}
impl CloneResult for Result<Vec<u8>, MessageError> {
    fn clone_result(&self) -> Result<Vec<u8>, MessageError> {
        match self {
            Ok(b) => Ok(b.clone()),
            Err(MessageError::InvalidHeader) => Err(MessageError::InvalidHeader),
            Err(MessageError::InvalidPacketLength) => Err(MessageError::InvalidPacketLength),
            Err(MessageError::InvalidTokenLength) => Err(MessageError::InvalidTokenLength),
            Err(MessageError::InvalidOptionDelta) => Err(MessageError::InvalidOptionDelta),
            Err(MessageError::InvalidOptionLength) => Err(MessageError::InvalidOptionLength),
        }
    }
}

// ------------------------------------------------------------------ generators

const DELTAS: [usize; 14] = [0, 1, 12, 13, 14, 243, 244, 255, 256, 268, 269, 270, 1000, 65535];
const LENS: [usize; 9] = [0, 1, 12, 13, 14, 268, 269, 270, 1000];

fn fill(rng: &mut Rng, n: usize) -> Vec<u8> {
    if n > 64 {
        vec![(rng.next() % 251) as u8 + 1; n]
    } else {
        rng.bytes(n)
    }
}

fn random_spec(rng: &mut Rng, wf: bool) -> PktSpec {
    let tkl = *rng.pick(&[0usize, 0, 1, 2, 4, 8, 8, 3]);
    let ver = if rng.chance(4, 5) { 1u8 } else { rng.below(4) as u8 };
    let typ = rng.below(4) as u8;
    let nopts = rng.below(5) as usize;
    let mut opts = vec![];
    for _ in 0..nopts {
        let n = match rng.below(6) {
            0 => *rng.pick(&[1u16, 3, 4, 6, 11, 12, 14, 15, 17, 23, 27, 28, 35, 60, 258]),
            1 => rng.below(14) as u16,
            2 => rng.range(13, 300) as u16,
            3 => *rng.pick(&DELTAS) as u16,
            4 => rng.below(65536) as u16,
            _ => 11,
        };
        let l = match rng.below(8) {
            0 => *rng.pick(&LENS),
            1 => rng.range(12, 15) as usize,
            2 => rng.range(267, 271) as usize,
            _ => rng.below(12) as usize,
        };
        opts.push((n, fill(rng, l)));
    }
    let code = match rng.below(12) {
        0 => CodeSpec::Byte(0),
        1 => CodeSpec::Byte(rng.below(256) as u8),
        2 => CodeSpec::Byte(0x45),
        3 => CodeSpec::Byte(0xFF),
        _ => CodeSpec::Byte(rng.range(1, 7) as u8),
    };
    let mut payload = match rng.below(4) {
        0 => vec![],
        1 => fill(rng, 1),
        2 => { let n = rng.below(40) as usize; fill(rng, n) }
        _ => fill(rng, 300),
    };
    if wf && code.byte() == 0 {
        payload.clear();
    }
    let tok = rng.bytes(tkl);
    PktSpec { vtt: ver << 6 | typ << 4 | tkl as u8, code, mid: rng.below(65536) as u16, tok, opts, payload }
}

fn random_op(rng: &mut Rng) -> Op {
    let nums = [0u16, 1, 6, 11, 12, 13, 23, 258, 269, 300, 65535];
    match rng.below(16) {
        0 => Op::Ver(rng.below(4) as u8),
        1 => Op::Typ(rng.below(4) as u8),
        2 => { let n = *rng.pick(&[0usize, 1, 4, 8]); Op::Tok(rng.bytes(n)) }
        3 | 4 | 5 | 6 => { let num = *rng.pick(&nums); let n = *rng.pick(&[0usize, 1, 2, 12, 13, 14, 268, 269]); Op::Add(num, fill(rng, n)) }
        7 => {
            let k = rng.below(3) as usize;
            { let num = *rng.pick(&nums); Op::Set(num, (0..k).map(|_| { let n = rng.below(15) as usize; fill(rng, n) }).collect()) }
        }
        8 => Op::Clr(*rng.pick(&nums)),
        9 => {
            if rng.chance(1, 4) {
                Op::ClrAll
            } else {
                Op::Clr(*rng.pick(&nums))
            }
        }
        10 => Op::Code(CodeSpec::Byte(*rng.pick(&[1u8, 2, 3, 4, 0x45, 0x84, 0xFF, 0x20]))),
        11 => Op::Mid(*rng.pick(&[0u16, 1, 255, 256, 65535, 0x1234])),
        12 | 13 => { let n = *rng.pick(&[0usize, 1, 5, 300]); Op::Pay(fill(rng, n)) }
        14 => Op::Ver(*rng.pick(&[0u8, 1, 2, 3, 4, 7, 255])),
        _ => {
            if rng.chance(1, 10) {
                Op::Tkl(*rng.pick(&[0u8, 1, 8, 9, 15, 16]))
            } else {
                Op::Mid(rng.below(65536) as u16)
            }
        }
    }
}

pub fn run(cx: &mut Ctx, _replay: Option<&str>) {
    let thorough = cx.tier_thorough;
    let mut rng = Rng(cx.seed ^ 0x504b54);

    // corpus of past failures first (D1-D6 witnesses)
    for h in ["40010000d1f501", "40010000e0ffff", "40010000e0fe00e01000", "4001000000", "40010000ff", "40000000ff41", "4001000010", "40010000d0", "40010000e000", "400100000d", "400100000e00"] {
        case_dec(cx, &unhex(h));
    }
    {
        // length extension 0xffff followed by exactly 65804 bytes (D3)
        let mut b = unhex("400100000effff");
        b.extend(vec![0x61; 65804]);
        case_dec(cx, &b);
        b.pop();
        case_dec(cx, &b);
    }

    {
        // very long runs of maximal option deltas: the running option number passes 65535 at the second
        // option and would pass 2^32 after 65270 of them – rejected either way, never a panic or a wrap
        for n in [2usize, 245, 65269, 65270, 65271, 70000] {
            let mut b = unhex("40010000");
            for _ in 0..n {
                b.extend_from_slice(&[0xe0, 0xff, 0xff]);
            }
            case_dec(cx, &b);
        }
        // the same with 13-class deltas (268 each) and with values in between
        for n in [244usize, 245, 246, 4000] {
            let mut b = unhex("40010000");
            for _ in 0..n {
                b.extend_from_slice(&[0xd1, 0xff, 0x2a]);
            }
            case_dec(cx, &b);
        }
    }

    // ---- 1. boundary product: <= 2 options (3 in thorough on a subset)
    let toks: [usize; 3] = [0, 1, 8];
    let pays: [usize; 3] = [0, 1, 300];
    let mut count = 0u64;
    for &d1 in DELTAS.iter() {
        for &l1 in LENS.iter() {
            for second in std::iter::once(None).chain(DELTAS.iter().flat_map(|d| LENS.iter().map(move |l| Some((*d, *l))))) {
                let mut opts = vec![(d1 as u16, fill(&mut rng, l1))];
                if let Some((d2, l2)) = second {
                    if d1 + d2 > 65535 {
                        continue;
                    }
                    opts.push(((d1 + d2) as u16, fill(&mut rng, l2)));
                }
                let tk = toks[(count % 3) as usize];
                let pl = pays[((count / 3) % 3) as usize];
                count += 1;
                let all_tp: Vec<(usize, usize)> = if second.is_none() || thorough {
                    toks.iter().flat_map(|t| pays.iter().map(move |p| (*t, *p))).collect()
                } else {
                    vec![(tk, pl)]
                };
                for (tk, pl) in all_tp {
                    let spec = PktSpec {
                        vtt: 0x40 | tk as u8,
                        code: CodeSpec::Byte(if pl == 300 { 0x45 } else { 1 }),
                        mid: (count as u16).wrapping_mul(7919),
                        tok: rng.bytes(tk),
                        opts: opts.clone(),
                        payload: fill(&mut rng, pl),
                    };
                    case_enc(cx, &spec, Some(None));
                    case_rt(cx, &spec);
                    // and the decoder on the reference image directly
                    let w = rfc_wire(spec.vtt, spec.code.byte(), spec.mid, &spec.tok, &spec.sorted_opts(), &spec.payload);
                    case_dec(cx, &w);
                }
            }
        }
    }
    cx.exhaustive.push("all messages with <= 2 options over delta x length boundary sets".into());

    // ---- 2. values at the 16-bit extended-length limit
    for l in [65803usize, 65804, 65805, 65806, 70000, 131341] {
        for d in [0usize, 13, 269] {
            let spec = PktSpec { vtt: 0x40, code: CodeSpec::Byte(2), mid: 7, tok: vec![], opts: vec![(d as u16, vec![0x61; l])], payload: vec![1, 2, 3] };
            case_enc(cx, &spec, Some(None));
            case_enc(cx, &spec, Some(Some(200000)));
            case_enc(cx, &spec, None);
            case_rt(cx, &spec);
        }
    }

    // ---- 3. all first header bytes (version x type x tkl nibble) with matching/mismatching tokens
    for vtt in 0..=255u8 {
        let tkl = (vtt & 15) as usize;
        for toklen in [tkl, 0, 8, 9, 15, 16] {
            let spec = PktSpec { vtt, code: CodeSpec::Byte(1), mid: 0xABCD, tok: rng.bytes(toklen), opts: vec![(11, b"a".to_vec())], payload: vec![] };
            case_enc(cx, &spec, Some(None));
            case_rt(cx, &spec);
        }
    }

    // ---- 4. all code bytes, with and without payload; non-canonical code values
    for b in 0..=255u8 {
        for pl in [0usize, 2] {
            for c in [CodeSpec::Byte(b), CodeSpec::Reserved(b)] {
                let spec = PktSpec { vtt: 0x41, code: c, mid: b as u16, tok: vec![9], opts: vec![], payload: vec![0xAA; pl] };
                case_enc(cx, &spec, Some(None));
                case_rt(cx, &spec);
                case_enc(cx, &spec, Some(Some(5 + pl)));
            }
        }
    }
    // … and the decoder + re-encoder on every code byte: a datagram is forwarded unchanged whatever its
    // code says about payloads (only 0.00 may lose one); with options, with and without payload
    for b in 0..=255u8 {
        for pl in [0usize, 1, 3] {
            for opts in [vec![], vec![(11u16, b"a".to_vec()), (12, vec![0])]] {
                case_dec(cx, &rfc_wire(0x41, b, 0x1000 | b as u16, &[7], &opts, &vec![0xB0 | pl as u8; pl]));
            }
        }
    }
    for c in [CodeSpec::UnkReq, CodeSpec::UnkResp] {
        let spec = PktSpec { vtt: 0x40, code: c, mid: 1, tok: vec![], opts: vec![], payload: vec![1] };
        case_enc(cx, &spec, Some(None));
        case_rt(cx, &spec);
    }

    // ---- 5. limits: land on L-1, L, L+1 via payload and via an option value
    let mut limits: Vec<usize> = (0..=9).collect();
    limits.extend([12, 13, 100, 269, 270, 1152, 1279, 1280, 1281, 4096, 63999, 64000, 64001]);
    for _ in 0..10 {
        limits.push(rng.range(10, 3000) as usize);
    }
    for &l in &limits {
        for tk in [0usize, 4, 8] {
            for delta in [-1i64, 0, 1] {
                let target = l as i64 + delta;
                // via payload: 4 + tk + 1 + pl = target
                let pl = target - 4 - tk as i64 - 1;
                if pl >= 1 {
                    let spec = PktSpec { vtt: 0x40 | tk as u8, code: CodeSpec::Byte(0x45), mid: 1, tok: rng.bytes(tk), opts: vec![], payload: vec![0x55; pl as usize] };
                    case_enc(cx, &spec, Some(Some(l)));
                    case_enc(cx, &spec, None);
                    case_enc(cx, &spec, Some(None));
                    // same message whose header says another token length than the token has
                    // (header replaced after set_token): the limit applies to the bytes written
                    for other in [0u8, 8, 3] {
                        if other as usize != tk {
                            let specd = PktSpec { vtt: 0x40 | other, ..spec.clone() };
                            case_enc(cx, &specd, Some(Some(l)));
                            case_enc(cx, &specd, None);
                        }
                    }
                    // same message with code 0.00: payload is not sent, so only 4+tk bytes count
                    let spec0 = PktSpec { code: CodeSpec::Byte(0), ..spec.clone() };
                    case_enc(cx, &spec0, Some(Some(l)));
                    case_enc(cx, &spec0, None);
                }
                // no payload at all
                if target == 4 + tk as i64 {
                    let spec = PktSpec { vtt: 0x40 | tk as u8, code: CodeSpec::Byte(1), mid: 1, tok: rng.bytes(tk), opts: vec![], payload: vec![] };
                    case_enc(cx, &spec, Some(Some(l)));
                }
                // via one option value of length v: 4 + tk + 1 + ext(v) + v = target  (option number 11)
                for extb in [0i64, 1, 2] {
                    let v = target - 4 - tk as i64 - 1 - extb;
                    let ok = match extb {
                        0 => (0..=12).contains(&v),
                        1 => (13..=268).contains(&v),
                        _ => v >= 269,
                    };
                    if ok {
                        let spec = PktSpec { vtt: 0x40 | tk as u8, code: CodeSpec::Byte(3), mid: 2, tok: rng.bytes(tk), opts: vec![(11, vec![0x33; v as usize])], payload: vec![] };
                        case_enc(cx, &spec, Some(Some(l)));
                        case_enc(cx, &spec, None);
                    }
                }
            }
        }
    }

    // ---- 5b. option VALUES with special content (the framing must not care what a value says)
    {
        let dict: Vec<Vec<u8>> = vec![
            b"..".to_vec(), b".".to_vec(), b"...".to_vec(), vec![], vec![0xEF, 0xBB, 0xBF], [vec![0xEF, 0xBB, 0xBF], b"a=1".to_vec()].concat(),
            b"%2F".to_vec(), b"a%2fb".to_vec(), b"a/b".to_vec(), b"/".to_vec(), vec![0], vec![0xFF], vec![0xFF, 0xFF], b"\r\n".to_vec(),
            vec![0x0B], "\u{feff}".as_bytes().to_vec(), b"coap://x".to_vec(), vec![0xC3, 0x28], b"..%2F..".to_vec(),
        ];
        let nums: [u16; 16] = [1, 3, 4, 6, 8, 11, 12, 14, 15, 17, 20, 23, 27, 35, 39, 60];
        for &n in &nums {
            for v in &dict {
                for second in [None, Some((n, b"x".to_vec())), Some((n + 1, v.clone()))] {
                    let mut opts = vec![(n, v.clone())];
                    if let Some(o) = second {
                        opts.push(o);
                    }
                    let spec = PktSpec { vtt: 0x42, code: CodeSpec::Byte(1), mid: 0x1234, tok: vec![7, 8], opts, payload: if n % 2 == 0 { vec![] } else { b"x".to_vec() } };
                    case_enc(cx, &spec, Some(None));
                    case_rt(cx, &spec);
                    let w = rfc_wire(spec.vtt, spec.code.byte(), spec.mid, &spec.tok, &spec.sorted_opts(), &spec.payload);
                    case_dec(cx, &w);
                }
            }
        }
    }
    // ---- 5c. datagrams with very many options (the option count has no boundary in the RFC)
    {
        // (the Lean model appends to a list per option, so each of these costs the driver ~15 s:
        //  one case in the quick tier, the full set in the thorough tier)
        let counts: Vec<usize> = if thorough { vec![1280, 65535, 65536, 65537, 65540] } else { vec![1280, 65537] };
        for &n in &counts {
            let tails: Vec<Vec<u8>> = if thorough || n < 2000 { vec![vec![], vec![0xFF, 0x41], vec![0x0F], vec![0x01], vec![0xF0], vec![0x11, 0x42, 0xFF, 0x43]] } else { vec![vec![0x0F]] };
            for tail in tails {
                let mut b = vec![0x40, 1, 0, 9];
                b.extend(std::iter::repeat(0u8).take(n)); // n empty values of option number 0
                b.extend(tail);
                case_dec(cx, &b);
            }
        }
    }
    // ---- 6. random structured messages
    let nrand = if thorough { 60000 } else { 12000 };
    for i in 0..nrand {
        let spec = random_spec(&mut rng, i % 8 != 0);
        case_enc(cx, &spec, Some(None));
        case_rt(cx, &spec);
        if i % 4 == 0 {
            let so = spec.sorted_opts();
            let sent = if spec.code.byte() != 0 { spec.payload.len() } else { 0 };
            let l = rfc_len(spec.tok.len(), &so, sent);
            let lim = (l as i64 + rng.range(0, 2) as i64 - 1).max(0) as usize;
            case_enc(cx, &spec, Some(Some(lim)));
        }
    }

    // ---- 7. API call sequences (any order, clear / re-add, setter permutations)
    let nsess = if thorough { 200000 } else { 20000 };
    for _ in 0..nsess {
        let n = rng.range(1, 12) as usize;
        let ops: Vec<Op> = (0..n).map(|_| random_op(&mut rng)).collect();
        case_api(cx, &ops);
    }
    // directed: every permutation of a fixed set of independent setters gives the same message
    {
        let base = vec![Op::Ver(2), Op::Typ(3), Op::Tok(vec![1, 2, 3]), Op::Code(CodeSpec::Byte(0x44)), Op::Mid(0xBEEF), Op::Add(258, vec![1]), Op::Add(11, b"x".to_vec()), Op::Pay(vec![7])];
        let mut idx: Vec<usize> = (0..base.len()).collect();
        let mut perms = 0;
        permute(&mut idx, 0, &mut |perm| {
            if perms < 2000 || perms % 20 == 0 {
                let ops: Vec<Op> = perm.iter().map(|&i| base[i].clone()).collect();
                case_api(cx, &ops);
            }
            perms += 1;
        });
        // cleared and re-added
        case_api(cx, &[Op::Add(4, vec![2]), Op::Add(11, vec![1]), Op::Clr(4), Op::Add(4, vec![3]), Op::Add(4, vec![4])]);
        case_api(cx, &[Op::Add(258, vec![0x1a]), Op::Clr(258)]);
        case_api(cx, &[Op::Add(258, vec![0x1a])]);
    }

    // ---- 8. decoder: exhaustive short tails after a set of headers
    let headers: Vec<Vec<u8>> = {
        let mut h = vec![];
        for (tkl, code) in [(0u8, 1u8), (0, 0), (0, 0x45), (0, 0xFF), (1, 1), (1, 0), (8, 1), (8, 0x45), (9, 1), (15, 1), (2, 1), (4, 0xFF)] {
            let mut v = vec![0x40 | tkl, code, 0x12, 0x34];
            v.extend(rng.bytes(tkl.min(8) as usize));
            h.push(v);
        }
        h
    };
    let edge: [u8; 17] = [0, 1, 0x0c, 0x0d, 0x0e, 0x0f, 0x10, 0xc0, 0xd0, 0xd1, 0xdd, 0xe0, 0xee, 0xf0, 0xf1, 0xfe, 0xff];
    for (hi, h) in headers.iter().enumerate() {
        // every proper prefix of the header itself
        for k in 0..h.len() {
            case_dec(cx, &h[..k]);
        }
        case_dec(cx, h);
        let full2 = thorough || hi < 3;
        for a in 0..=255u8 {
            let mut v = h.clone();
            v.push(a);
            case_dec(cx, &v);
            for b in 0..=255u8 {
                if !full2 && !edge.contains(&b) && !edge.contains(&a) {
                    continue;
                }
                let mut w = v.clone();
                w.push(b);
                case_dec(cx, &w);
                if thorough && hi == 0 {
                    for c in 0..=255u8 {
                        let mut x = w.clone();
                        x.push(c);
                        case_dec(cx, &x);
                    }
                } else if edge.contains(&b) && edge.contains(&a) {
                    for &c in &edge {
                        let mut x = w.clone();
                        x.push(c);
                        case_dec(cx, &x);
                    }
                }
            }
        }
    }
    cx.exhaustive.push(if thorough { "every byte string of <= 2 bytes after each of 12 headers; every 3-byte string after one header".to_string() } else { "every byte string of <= 2 bytes after each of 3 headers; boundary-byte strings of <= 3 bytes after each of 12 headers".to_string() });

    // ---- 9. every option header byte x extended delta / length values, with and without room
    let ext16: [u16; 9] = [0, 1, 0xff, 0x100, 0xfef1, 0xfef2, 0xfef3, 0xfffe, 0xffff];
    for hb in 0..=255u8 {
        let dn = hb >> 4;
        let ln = hb & 15;
        let dexts: Vec<Vec<u8>> = match dn {
            13 => (0..=255u8).step_by(if ln >= 13 { 15 } else { 1 }).map(|x| vec![x]).chain(std::iter::once(vec![255])).collect(),
            14 => ext16.iter().map(|x| vec![(x >> 8) as u8, *x as u8]).collect(),
            _ => vec![vec![]],
        };
        let lexts: Vec<Vec<u8>> = match ln {
            13 => (0..=255u8).step_by(if dn >= 13 { 15 } else { 1 }).map(|x| vec![x]).chain(std::iter::once(vec![255])).collect(),
            14 => ext16.iter().map(|x| vec![(x >> 8) as u8, *x as u8]).collect(),
            _ => vec![vec![]],
        };
        for de in &dexts {
            for le in &lexts {
                let len = match ln {
                    13 => le[0] as usize + 13,
                    14 => ((le[0] as usize) << 8 | le[1] as usize) + 269,
                    x => x as usize,
                };
                let mut base = vec![0x40, 1, 0, 1, hb];
                base.extend(de);
                base.extend(le);
                // exact room, one short, one extra + marker + payload, then a second option pushing the number up
                let mut full = base.clone();
                full.extend(vec![0x62; len]);
                case_dec(cx, &full);
                if len > 0 {
                    case_dec(cx, &full[..full.len() - 1]);
                }
                case_dec(cx, &base);
                let mut more = full.clone();
                more.extend([0xFF, 0x01]);
                case_dec(cx, &more);
                let mut two = full.clone();
                two.extend([0xe0, 0xff, 0x00]); // + delta 65549
                case_dec(cx, &two);
                let mut two = full.clone();
                two.extend([0xd1, 0x00, 0x07]);
                case_dec(cx, &two);
            }
        }
    }
    cx.exhaustive.push("every option header byte x extended delta/length boundary values, with and without room".into());

    // ---- 10. prefixes and single-byte corruptions of well-formed messages; random strings
    let nmsg = if thorough { 3000 } else { 300 };
    for _ in 0..nmsg {
        let spec = random_spec(&mut rng, true);
        if spec.opts.iter().any(|(_, v)| v.len() > 400) || spec.payload.len() > 60 {
            continue;
        }
        let w = rfc_wire(spec.vtt, spec.code.byte(), spec.mid, &spec.tok, &spec.sorted_opts(), &spec.payload);
        for k in 0..=w.len() {
            case_dec(cx, &w[..k]);
        }
        for k in 0..w.len() {
            for delta in [1u8, 0x10, 0x80, 0xff] {
                let mut x = w.clone();
                x[k] ^= delta;
                case_dec(cx, &x);
            }
        }
    }
    let nstr = if thorough { 1_000_000 } else { 50_000 };
    for _ in 0..nstr {
        let n = rng.range(0, 24) as usize;
        let mut b = rng.bytes(n);
        if n > 0 && rng.chance(3, 4) {
            b[0] = 0x40 | (rng.below(9) as u8);
        }
        case_dec(cx, &b);
    }
}

fn permute(idx: &mut Vec<usize>, k: usize, f: &mut dyn FnMut(&[usize])) {
    if k == idx.len() {
        f(idx);
        return;
    }
    for i in k..idx.len() {
        idx.swap(k, i);
        permute(idx, k + 1, f);
        idx.swap(k, i);
    }
}
