//! Domain OBS: the observe `Subject` registry and `create_notification` – C14, C15.
//!   OBS run <op;op;...>    -> full state dump after the last op
//!   OBS trace <op;op;...>  -> dump after every op, joined by " | "
//!   OBS notif <mid> <tok> <seq> <payload> <con>  -> dump | encoding
//! ops: reg ep pathhex tokhex | dereg ep pathhex tokhex | chg pathhex mid con | ack ep mid | limit n
//! dump: L<limit> then for each known path (sorted): <pathhex>{<seq>;ep:tok:unacked:mid,...} or <pathhex>{-}
use crate::pkt::{dump as pdump, show_bytes};
use crate::{guarded, hex, unhex, Ctx, Rng};
use coap_lite::{create_notification, CoapRequest, Packet, Subject};
use std::collections::{BTreeMap, BTreeSet, VecDeque};

#[derive(Clone, Debug, PartialEq, Eq, PartialOrd, Ord)]
pub enum Op {
    Reg(u8, String, Vec<u8>),
    Dereg(u8, String, Vec<u8>),
    Chg(String, u16, bool),
    Ack(u8, u16),
    /// acknowledgement whose request also carries a Uri-Path (irrelevant to the registry)
    AckP(u8, u16, String),
    /// register / deregister with raw Uri-Path segments (may be invalid UTF-8)
    RegRaw(u8, Vec<Vec<u8>>, Vec<u8>),
    DeregRaw(u8, Vec<Vec<u8>>, Vec<u8>),
    Limit(u8),
    /// test hook (cfg coap_lite_verif): set the sequence number of an existing resource
    Seq(String, u32),
}

impl Op {
    fn token(&self) -> String {
        match self {
            Op::Reg(e, p, t) => format!("reg {} {} {}", e, hex(p.as_bytes()), hex(t)),
            Op::Dereg(e, p, t) => format!("dereg {} {} {}", e, hex(p.as_bytes()), hex(t)),
            Op::Chg(p, m, c) => format!("chg {} {} {}", hex(p.as_bytes()), m, *c as u8),
            Op::Ack(e, m) => format!("ack {} {}", e, m),
            Op::AckP(e, m, p) => format!("ackp {} {} {}", e, m, hex(p.as_bytes())),
            Op::RegRaw(e, segs, t) => format!("regraw {} {} {}", e, segtok(segs), hex(t)),
            Op::DeregRaw(e, segs, t) => format!("deregraw {} {} {}", e, segtok(segs), hex(t)),
            Op::Limit(l) => format!("limit {}", l),
            Op::Seq(p, n) => format!("seq {} {}", hex(p.as_bytes()), n),
        }
    }
    pub fn paths(&self) -> Option<String> {
        match self {
            Op::Reg(_, p, _) | Op::Dereg(_, p, _) => {
                // the registry key is get_path() of the request
                let mut r: CoapRequest<Ep> = CoapRequest::new();
                r.set_path(p);
                Some(r.get_path())
            }
            Op::Chg(p, _, _) | Op::Seq(p, _) => Some(p.clone()),
            Op::RegRaw(_, segs, _) | Op::DeregRaw(_, segs, _) => Some(raw_request(0, segs, &[]).get_path()),
            _ => None,
        }
    }
}

/// The endpoint type of the registry under test. Its `Display` shows only the low four bits, so
/// endpoints 1 and 17 print alike while `==` tells them apart: the registry must match endpoints by
/// equality, never by their printed form.
#[derive(Clone, Debug, PartialEq)]
pub struct Ep(pub u8);

impl std::fmt::Display for Ep {
    fn fmt(&self, f: &mut std::fmt::Formatter<'_>) -> std::fmt::Result {
        write!(f, "ep{}", self.0 & 0x0f)
    }
}

fn segtok(segs: &[Vec<u8>]) -> String {
    if segs.is_empty() {
        "_".to_string()
    } else {
        segs.iter().map(|x| hex(x)).collect::<Vec<_>>().join(",")
    }
}

/// fields of the request object that the registry's contract does not name (C14: endpoint, token and
/// path decide; C15: endpoint and message id decide): message type, the message id of a (de)registration,
/// the token of an acknowledgement, a payload, further options. `noise` 0 leaves them at their defaults;
/// 1..=4 set them (type CON / NON / ACK / RST, ...). The outcome must not depend on them.
fn decorate(p: &mut Packet, noise: u8, is_ack: bool) {
    if noise == 0 {
        return;
    }
    p.header.set_type(crate::tbl::mtype((noise - 1) as u64 & 3));
    if is_ack {
        p.set_token(vec![0xE0 | noise; noise as usize]);
    } else {
        p.header.message_id = 0x1000u16.wrapping_mul(noise as u16) | 0x55;
    }
    if noise % 2 == 0 {
        p.payload = b"x".to_vec();
    }
    if noise >= 3 {
        p.add_option(coap_lite::CoapOption::ETag, vec![noise]);
        p.add_option(coap_lite::CoapOption::Observe, vec![]);
    }
}

fn request(ep: u8, path: &str, tok: &[u8], mid: u16, noise: u8, is_ack: bool) -> CoapRequest<Ep> {
    let mut p = Packet::new();
    p.set_token(tok.to_vec());
    p.header.message_id = mid;
    let keep_mid = is_ack;
    decorate(&mut p, noise, is_ack);
    if keep_mid {
        p.header.message_id = mid;
    }
    let mut r: CoapRequest<Ep> = CoapRequest::from_packet(p, Ep(ep));
    r.set_path(path);
    r
}

fn raw_request(ep: u8, segs: &[Vec<u8>], tok: &[u8]) -> CoapRequest<Ep> {
    raw_request_n(ep, segs, tok, 0)
}

fn raw_request_n(ep: u8, segs: &[Vec<u8>], tok: &[u8], noise: u8) -> CoapRequest<Ep> {
    let mut p = Packet::new();
    p.set_token(tok.to_vec());
    for s in segs {
        p.add_option(coap_lite::CoapOption::UriPath, s.clone());
    }
    decorate(&mut p, noise, false);
    CoapRequest::from_packet(p, Ep(ep))
}

fn apply(s: &mut Subject<Ep>, op: &Op) {
    apply_n(s, op, 0)
}

fn apply_n(s: &mut Subject<Ep>, op: &Op, noise: u8) {
    match op {
        Op::AckP(e, m, p) => s.acknowledge(&request(*e, p, &[], *m, noise, true)),
        Op::RegRaw(e, segs, t) => s.register(&raw_request_n(*e, segs, t, noise)),
        Op::DeregRaw(e, segs, t) => s.deregister(&raw_request_n(*e, segs, t, noise)),
        Op::Reg(e, p, t) => s.register(&request(*e, p, t, 0, noise, false)),
        Op::Dereg(e, p, t) => s.deregister(&request(*e, p, t, 0, noise, false)),
        Op::Chg(p, m, c) => s.resource_changed(p, *m, *c),
        Op::Ack(e, m) => s.acknowledge(&request(*e, "", &[], *m, noise, true)),
        Op::Limit(l) => s.set_unacknowledged_limit(*l),
        Op::Seq(p, n) => s.verif_set_sequence(p, *n),
    }
}

fn dump(s: &Subject<Ep>, limit: u8, paths: &BTreeSet<String>, with_seq: bool) -> String {
    let mut out = format!("L{}", limit);
    for p in paths {
        out.push(' ');
        out.push_str(&hex(p.as_bytes()));
        // the two read accessors agree (same observers, same order)
        let via_list: Option<Vec<(u8, Vec<u8>)>> = s.get_resource_observers(p).map(|l| l.iter().map(|o| (o.endpoint.0, o.token.clone())).collect());
        let via_res: Option<Vec<(u8, Vec<u8>)>> = s.get_resource(p).map(|r| r.observers.iter().map(|o| (o.endpoint.0, o.token.clone())).collect());
        if via_list != via_res {
            out.push_str("{ACCESSORS-DISAGREE}");
        }
        match s.get_resource(p) {
            None => out.push_str("{-}"),
            Some(r) => {
                out.push('{');
                if with_seq {
                    out.push_str(&r.sequence.to_string());
                }
                out.push(';');
                let obs: Vec<String> = r
                    .observers
                    .iter()
                    .map(|o| {
                        format!(
                            "{}:{}:{}:{}",
                            o.endpoint.0,
                            hex(&o.token),
                            o.verif_unacked(),
                            o.verif_pending_mid().map(|m| m.to_string()).unwrap_or("n".into())
                        )
                    })
                    .collect();
                out.push_str(&obs.join(","));
                out.push('}');
            }
        }
    }
    out
}

// ---------------------------------------------------------------- reference (per-observer automaton)
#[derive(Clone, Default)]
struct RefRes {
    seq: u64,
    obs: Vec<(u8, Vec<u8>, u32, Option<u16>)>,
}
#[derive(Clone)]
struct RefSubject {
    limit: u32,
    res: BTreeMap<String, RefRes>,
}

impl RefSubject {
    fn apply(&mut self, op: &Op) {
        match op {
            Op::Reg(e, _, t) => {
                let key = op.paths().unwrap();
                let r = self.res.entry(key).or_default();
                if let Some(o) = r.obs.iter_mut().find(|o| o.0 == *e) {
                    *o = (*e, t.clone(), 0, None);
                } else {
                    r.obs.push((*e, t.clone(), 0, None));
                }
            }
            Op::Dereg(e, _, t) => {
                let key = op.paths().unwrap();
                if let Some(r) = self.res.get_mut(&key) {
                    if let Some(i) = r.obs.iter().position(|o| o.0 == *e && o.1 == *t) {
                        r.obs.remove(i);
                    }
                }
            }
            Op::Chg(p, m, c) => {
                let limit = self.limit;
                if let Some(r) = self.res.get_mut(p) {
                    // a 32-bit counter that goes up by one per round (and wraps instead of overflowing)
                    r.seq = (r.seq + 1) % (1u64 << 32);
                    for o in r.obs.iter_mut() {
                        o.3 = Some(*m);
                        if *c {
                            o.2 += 1;
                        }
                    }
                    r.obs.retain(|o| o.2 <= limit);
                }
            }
            Op::RegRaw(e, _, t) => {
                let key = op.paths().unwrap();
                let r = self.res.entry(key).or_default();
                if let Some(o) = r.obs.iter_mut().find(|o| o.0 == *e) {
                    *o = (*e, t.clone(), 0, None);
                } else {
                    r.obs.push((*e, t.clone(), 0, None));
                }
            }
            Op::DeregRaw(e, _, t) => {
                let key = op.paths().unwrap();
                if let Some(r) = self.res.get_mut(&key) {
                    if let Some(i) = r.obs.iter().position(|o| o.0 == *e && o.1 == *t) {
                        r.obs.remove(i);
                    }
                }
            }
            Op::Ack(e, m) | Op::AckP(e, m, _) => {
                for r in self.res.values_mut() {
                    if let Some(o) = r.obs.iter_mut().find(|o| o.0 == *e && o.3 == Some(*m)) {
                        o.2 = 0;
                        o.3 = None;
                    }
                }
            }
            Op::Limit(l) => self.limit = *l as u32,
            Op::Seq(p, n) => {
                if let Some(r) = self.res.get_mut(p) {
                    r.seq = *n as u64;
                }
            }
        }
    }
    fn dump(&self, paths: &BTreeSet<String>) -> String {
        let mut out = format!("L{}", self.limit);
        for p in paths {
            out.push(' ');
            out.push_str(&hex(p.as_bytes()));
            match self.res.get(p) {
                None => out.push_str("{-}"),
                Some(r) => {
                    out.push('{');
                    out.push_str(&r.seq.to_string());
                    out.push(';');
                    let obs: Vec<String> = r.obs.iter().map(|o| format!("{}:{}:{}:{}", o.0, hex(&o.1), o.2, o.3.map(|m| m.to_string()).unwrap_or("n".into()))).collect();
                    out.push_str(&obs.join(","));
                    out.push('}');
                }
            }
        }
        out
    }
}

fn pathlist(paths: &BTreeSet<String>) -> String {
    if paths.is_empty() {
        "_".to_string()
    } else {
        paths.iter().map(|p| hex(p.as_bytes())).collect::<Vec<_>>().join(",")
    }
}

fn limit_after(ops: &[Op]) -> u8 {
    let mut l = 10u8;
    for o in ops {
        if let Op::Limit(x) = o {
            l = *x
        }
    }
    l
}

fn all_paths(ops: &[Op], extra: &[String]) -> BTreeSet<String> {
    let mut s: BTreeSet<String> = extra.iter().cloned().collect();
    for o in ops {
        if let Some(p) = o.paths() {
            s.insert(p);
        }
    }
    s
}

/// run a whole history; returns (dump-with-seq after each op) or None on panic
fn run_real(ops: &[Op], paths: &BTreeSet<String>) -> Option<Vec<String>> {
    run_real_n(ops, paths, 0)
}

fn run_real_n(ops: &[Op], paths: &BTreeSet<String>, noise: u8) -> Option<Vec<String>> {
    guarded(|| {
        let mut s: Subject<Ep> = Subject::default();
        let mut outs = vec![];
        for (i, o) in ops.iter().enumerate() {
            apply_n(&mut s, o, noise);
            outs.push(dump(&s, limit_after(&ops[..=i]), paths, true));
        }
        outs
    })
}

fn check_oracle(cx: &mut Ctx, line: &str, ops: &[Op], paths: &BTreeSet<String>, real: &Option<Vec<String>>) {
    // the same history with the fields the contract does not name set to other values: same outcome
    if real.is_some() {
        for noise in 1..=4u8 {
            let noisy = run_real_n(ops, paths, noise);
            if &noisy != real {
                let at = match (&noisy, real) {
                    (Some(a), Some(b)) => a.iter().zip(b.iter()).position(|(x, y)| x != y).unwrap_or(0),
                    _ => 0,
                };
                let prop = match ops.get(at) {
                    Some(Op::Reg(..)) | Some(Op::Dereg(..)) | Some(Op::RegRaw(..)) | Some(Op::DeregRaw(..)) => "C14",
                    _ => "C15",
                };
                cx.oracle_fail(prop, line, &format!("the outcome of op {} depends on a field of the request object the contract does not name (variant {}: message type {}, {} ): {} instead of {}", at + 1, noise, ["CON", "NON", "ACK", "RST"][(noise as usize - 1) & 3], "ack token / message id / payload / extra options set", noisy.as_ref().and_then(|v| v.get(at).cloned()).unwrap_or("panic".into()), real.as_ref().and_then(|v| v.get(at).cloned()).unwrap_or_default()));
                break;
            }
        }
    }
    let mut r = RefSubject { limit: 10, res: BTreeMap::new() };
    match real {
        None => {
            cx.oracle_fail("C15", line, "observe registry operation panicked");
        }
        Some(outs) => {
            for (i, o) in ops.iter().enumerate() {
                r.apply(o);
                let want = r.dump(paths);
                if outs[i] != want {
                    let prop = match o {
                        Op::Reg(..) | Op::Dereg(..) | Op::RegRaw(..) | Op::DeregRaw(..) => "C14",
                        _ => "C15",
                    };
                    cx.oracle_fail(prop, line, &format!("after op {} ({}): registry is {} but per-observer reference gives {}", i + 1, o.token(), outs[i], want));
                    // C14 also covers duplicates/frames whatever the op
                    if prop == "C15" && (outs[i].split(';').count() != want.split(';').count()) {
                        cx.oracle_fail("C14", line, &format!("after op {}: observer lists differ", i + 1));
                    }
                    // … and "operations on one resource never change another resource's observers": a change
                    // notification for resource p that leaves ANOTHER resource's observers different from the
                    // reference touched a resource it does not name
                    if let Op::Chg(p, _, _) = o {
                        let observers_of = |d: &str| -> Vec<(String, String)> {
                            d.split(' ').skip(1).filter_map(|item| {
                                let (path, rest) = item.split_once('{')?;
                                let obs = rest.trim_end_matches('}').split_once(';').map(|x| x.1).unwrap_or("");
                                Some((path.to_string(), obs.to_string()))
                            }).collect()
                        };
                        let key = hex(p.as_bytes());
                        let a = observers_of(&outs[i]);
                        let b = observers_of(&want);
                        if a.iter().zip(b.iter()).any(|(x, y)| x.0 != key && x != y) {
                            cx.oracle_fail("C14", line, &format!("after op {} ({}): the observers of a resource OTHER than the one named changed: {} but the reference gives {}", i + 1, o.token(), outs[i], want));
                        }
                    }
                    break;
                }
            }
        }
    }
}

pub fn case_run(cx: &mut Ctx, ops: &[Op], extra_paths: &[String]) {
    let paths = all_paths(ops, extra_paths);
    let line = format!("OBS run {} {}", pathlist(&paths), ops.iter().map(|o| o.token()).collect::<Vec<_>>().join(";"));
    let real = run_real(ops, &paths);
    match &real {
        None => cx.case(&line, "panic"),
        Some(outs) => cx.case(&line, outs.last().map(|s| s.as_str()).unwrap_or("L10")),
    }
    cx.nontrivial(&line);
    check_oracle(cx, &line, ops, &paths, &real);
}

pub fn case_trace(cx: &mut Ctx, ops: &[Op]) {
    let paths = all_paths(ops, &[]);
    let line = format!("OBS trace {} {}", pathlist(&paths), ops.iter().map(|o| o.token()).collect::<Vec<_>>().join(";"));
    let real = run_real(ops, &paths);
    match &real {
        None => cx.case(&line, "panic"),
        Some(outs) => cx.case(&line, &outs.join(" | ")),
    }
    cx.nontrivial(&line);
    check_oracle(cx, &line, ops, &paths, &real);
}

pub fn case_notif(cx: &mut Ctx, mid: u16, tok: &[u8], seq: u32, payload: &[u8], con: bool) {
    let line = format!("OBS notif {} {} {} {} {}", mid, hex(tok), seq, hex(payload), con as u8);
    let r = guarded(|| {
        let p = create_notification(mid, tok.to_vec(), seq, payload.to_vec(), con);
        let e = p.to_bytes_unlimited();
        (p, e)
    });
    match &r {
        None => {
            cx.case(&line, "panic");
            if tok.len() <= 8 {
                cx.oracle_fail("C15", &line, "create_notification panicked");
            }
        }
        Some((p, e)) => {
            let es = match e {
                Ok(b) => show_bytes(&Some(Ok(b.clone()))),
                Err(_) => "err".to_string(),
            };
            cx.case(&line, &format!("{} | {}", pdump(p), es));
            cx.nontrivial(&line);
            // oracle: version 1, requested type, 2.05, mid, token, payload, Observe = minimal BE of seq; survives encode/decode
            let mut be = vec![];
            let mut v = seq;
            while v > 0 {
                be.push((v & 0xff) as u8);
                v >>= 8;
            }
            be.reverse();
            let mut opts = vec![];
            for (n, l) in p.options() {
                for x in l.iter() {
                    opts.push((*n, x.clone()));
                }
            }
            let vtt = crate::tbl::header_first_byte(&p.header);
            let good = vtt == (0x40 | (if con { 0 } else { 1 }) << 4 | tok.len() as u8)
                && u8::from(p.header.code) == 0x45
                && p.header.message_id == mid
                && p.get_token() == tok
                && p.payload == payload
                && opts == vec![(6u16, be.clone())]
                && p.get_observe_value() == Some(Ok(seq));
            if !good && tok.len() <= 8 {
                cx.oracle_fail("C15", &line, &format!("notification does not carry the given type/id/token/payload/sequence: {}", pdump(p)));
            }
            if let Ok(b) = e {
                match Packet::from_bytes(b) {
                    Ok(q) if q.get_observe_value() == Some(Ok(seq)) && q.get_token() == tok && q.payload == payload => {}
                    _ => {
                        if tok.len() <= 8 {
                            cx.oracle_fail("C15", &line, "notification does not survive encode/decode")
                        }
                    }
                }
            }
        }
    }
}

pub fn run(cx: &mut Ctx) {
    let thorough = cx.tier_thorough;
    let mut rng = Rng(cx.seed ^ 0x4f4253);

    // ---- corpus: D7 witness (limit 255, 256 unacknowledged confirmable rounds)
    {
        let mut ops = vec![Op::Limit(255), Op::Reg(1, "p".into(), vec![1])];
        for i in 0..300u16 {
            ops.push(Op::Chg("p".into(), i, true));
        }
        case_trace(cx, &ops);
    }

    // ---- 1. breadth-first exploration of the small alphabet: every transition out of every
    //         distinct state reachable within the depth bound
    // the two endpoints print alike (`ep1`) and are different: matching must be by equality
    let eps = [1u8, 17];
    let toks: [Vec<u8>; 2] = [vec![0xa], vec![0xb]];
    let paths = ["p".to_string(), "q".to_string()];
    let mids = [10u16, 11];
    let mut alphabet: Vec<Op> = vec![];
    for &e in &eps {
        for t in &toks {
            for p in &paths {
                alphabet.push(Op::Reg(e, p.clone(), t.clone()));
                alphabet.push(Op::Dereg(e, p.clone(), t.clone()));
            }
        }
        for &m in &mids {
            alphabet.push(Op::Ack(e, m));
        }
    }
    for p in &paths {
        for &m in &mids {
            alphabet.push(Op::Chg(p.clone(), m, true));
            alphabet.push(Op::Chg(p.clone(), m, false));
        }
    }
    alphabet.push(Op::Limit(0));
    alphabet.push(Op::Limit(1));
    alphabet.push(Op::Limit(2));
    let depth = if thorough { 7 } else { 5 };
    let pathset: BTreeSet<String> = paths.iter().cloned().collect();
    let mut seen: BTreeMap<String, Vec<Op>> = BTreeMap::new();
    let mut queue: VecDeque<Vec<Op>> = VecDeque::new();
    seen.insert("init".into(), vec![]);
    queue.push_back(vec![]);
    let mut transitions = 0u64;
    let max_states = if thorough { 60000 } else { 6000 };
    while let Some(w) = queue.pop_front() {
        if w.len() >= depth {
            continue;
        }
        for op in &alphabet {
            let mut ops = w.clone();
            ops.push(op.clone());
            case_run(cx, &ops, &paths);
            transitions += 1;
            // dedup key: state without absolute sequence numbers
            let key = guarded(|| {
                let mut s: Subject<Ep> = Subject::default();
                for o in &ops {
                    apply(&mut s, o);
                }
                dump(&s, limit_after(&ops), &pathset, false)
            })
            .unwrap_or_else(|| format!("panic-{}", transitions));
            if !seen.contains_key(&key) && seen.len() < max_states {
                seen.insert(key, ops.clone());
                queue.push_back(ops);
            }
        }
    }
    cx.stat_n("bfs_states", seen.len() as u64);
    cx.stat_n("bfs_transitions", transitions);
    cx.exhaustive.push(format!("every one of {} operations out of every distinct registry state reachable within depth {} (2 endpoints x 2 tokens x 2 paths x 2 mids x CON/NON x limits 0,1,2)", alphabet.len(), depth));

    // ---- 1b. tokens of every length relation (empty / prefix / equal / longer) between the registered
    //          observer and the request that deregisters or re-registers it, then a change and an ack
    {
        let toks: [Vec<u8>; 4] = [vec![], vec![0xa], vec![0xa, 0xb], vec![0xa, 0xb, 0xc, 0xd, 0xe, 0xf, 1, 2]];
        for t1 in &toks {
            for t2 in &toks {
                for e2 in [1u8, 17, 2] {
                    for second in 0..2 {
                        let mut ops = vec![Op::Reg(1, "p".into(), t1.clone()), Op::Reg(2, "p".into(), vec![0x77]), Op::Chg("p".into(), 10, true)];
                        ops.push(if second == 0 { Op::Dereg(e2, "p".into(), t2.clone()) } else { Op::Reg(e2, "p".into(), t2.clone()) });
                        ops.push(Op::Chg("p".into(), 11, true));
                        ops.push(Op::Ack(1, 11));
                        ops.push(Op::Ack(2, 10));
                        ops.push(Op::Chg("p".into(), 12, true));
                        case_trace(cx, &ops);
                    }
                }
            }
        }
    }

    // ---- 2. random histories of length 200 over larger alphabets
    let nh = if thorough { 1500 } else { 250 };
    let bigpaths = ["a", "a/b", "/a", "sensors/temp", "", "x"];
    for _ in 0..nh {
        let mut ops = vec![];
        if rng.chance(1, 2) {
            ops.push(Op::Limit(*rng.pick(&[0u8, 1, 2, 3, 10, 254, 255])));
        }
        for _ in 0..200 {
            let e = rng.below(8) as u8 + if rng.chance(1, 4) { 16 } else { 0 };
            let p = rng.pick(&bigpaths).to_string();
            let tl = rng.below(9) as usize;
            let t = if rng.chance(1, 2) { vec![e] } else { rng.bytes(tl) };
            let m = rng.below(6) as u16;
            ops.push(match rng.below(12) {
                0 | 1 | 2 => Op::Reg(e, p, t),
                3 => Op::Dereg(e, p, t),
                4 | 5 | 6 | 7 => {
                    let key = Op::Reg(0, p, vec![]).paths().unwrap();
                    Op::Chg(key, m, rng.chance(2, 3))
                }
                8 | 9 => Op::Ack(e, m),
                10 => {
                    if rng.chance(1, 2) {
                        Op::AckP(e, m, rng.pick(&bigpaths).to_string())
                    } else if rng.chance(1, 2) {
                        Op::RegRaw(e, vec![b"temp".to_vec(), vec![0xff, 0xfe]], t)
                    } else {
                        Op::DeregRaw(e, vec![vec![0xc3], b"a".to_vec()], t)
                    }
                }
                _ => Op::Limit(*rng.pick(&[0u8, 1, 2, 5, 255])),
            });
        }
        case_trace(cx, &ops);
    }

    // ---- 2b. directed: acknowledgements carrying a path (incl. the root resource), slash-prefixed
    //          round names, registrations whose path has undecodable segments
    {
        let roots = ["", "a", "temp", "/temp", "a/b"];
        for r1 in roots {
            for r2 in roots {
                for ackpath in roots {
                    let key2 = Op::Reg(0, r2.to_string(), vec![]).paths().unwrap();
                    let ops = vec![
                        Op::Limit(1),
                        Op::Reg(1, r1.to_string(), vec![1]),
                        Op::Reg(1, r2.to_string(), vec![2]),
                        Op::Chg(key2.clone(), 7, true),
                        Op::AckP(1, 7, ackpath.to_string()),
                        Op::Chg(key2.clone(), 8, true),
                        Op::Chg(format!("/{}", key2), 9, true),
                        Op::Chg(key2.clone(), 9, true),
                        Op::Chg(key2.clone(), 9, true),
                    ];
                    case_trace(cx, &ops);
                }
            }
        }
        let raws: Vec<Vec<Vec<u8>>> = vec![vec![b"temp".to_vec()], vec![vec![0xff], b"temp".to_vec()], vec![b"temp".to_vec(), vec![0xc3, 0x28]], vec![vec![0x80]], vec![]];
        for a in &raws {
            for b in &raws {
                let ops = vec![Op::Reg(1, "".into(), vec![9]), Op::RegRaw(1, a.clone(), vec![1]), Op::RegRaw(2, b.clone(), vec![2]), Op::DeregRaw(1, b.clone(), vec![1]), Op::DeregRaw(2, a.clone(), vec![2]), Op::DeregRaw(1, a.clone(), vec![1])];
                case_trace(cx, &ops);
            }
        }
        // same message id on consecutive rounds
        for lim in [0u8, 1, 2] {
            let mut ops = vec![Op::Limit(lim), Op::Reg(1, "s".into(), vec![1])];
            for _ in 0..5 {
                ops.push(Op::Chg("s".into(), 42, true));
            }
            case_trace(cx, &ops);
        }
    }

    // ---- 2c. near-miss keys: a deregistration / acknowledgement that differs from the registered
    //          token / message id / endpoint / path in one bit, one byte of length, or case
    for tl in 0..=8usize {
        let tok: Vec<u8> = (0..tl).map(|i| 0x40 + 0x11 * i as u8).collect();
        let mut variants: Vec<Vec<u8>> = vec![];
        for i in 0..tl {
            for bit in 0..8 {
                let mut t = tok.clone();
                t[i] ^= 1 << bit;
                variants.push(t);
            }
        }
        if tl > 0 {
            variants.push(tok[..tl - 1].to_vec());
            variants.push(tok[1..].to_vec());
        }
        if tl < 8 {
            variants.push([tok.clone(), vec![0]].concat());
            variants.push([vec![0], tok.clone()].concat());
        }
        for v in variants {
            let ops = vec![Op::Reg(1, "t".into(), tok.clone()), Op::Reg(2, "t".into(), v.clone()), Op::Dereg(1, "t".into(), v.clone()), Op::Dereg(2, "t".into(), tok.clone()), Op::Dereg(1, "T".into(), tok.clone()), Op::Dereg(1, "t/".into(), tok.clone()), Op::Dereg(1, "t".into(), tok.clone())];
            case_trace(cx, &ops);
        }
    }
    for mid in [0u16, 1, 0x00ff, 0x0100, 0x7fff, 0x8000, 0xffff] {
        for d in [1u16, 0x100, 0x8000, 0xffff] {
            let ops = vec![Op::Limit(1), Op::Reg(1, "m".into(), vec![1]), Op::Reg(3, "m".into(), vec![3]), Op::Chg("m".into(), mid, true), Op::Ack(1, mid ^ d), Op::Ack(2, mid), Op::Ack(3, mid), Op::Chg("m".into(), mid.wrapping_add(1), true), Op::Chg("m".into(), mid.wrapping_add(2), true)];
            case_trace(cx, &ops);
        }
    }

    // ---- 2d. rounds across the end of the 32-bit sequence range (reached through the test hook;
    //          2^32 real rounds take minutes and are run in the thorough tier only)
    for start in [u32::MAX - 2, u32::MAX - 1, u32::MAX, 0x7fff_ffff, 0x00ff_ffff, 0xffff] {
        for con in [false, true] {
            let mut ops = vec![Op::Limit(255), Op::Reg(1, "w".into(), vec![1]), Op::Seq("w".into(), start), Op::Seq("absent".into(), 5)];
            for i in 0..5u16 {
                ops.push(Op::Chg("w".into(), i, con));
            }
            case_trace(cx, &ops);
        }
    }
    if thorough {
        // no hook: 2^32 + 2 real notification rounds on an observed resource
        let line = "OBS soak 4294967298".to_string();
        let r = guarded(|| {
            let mut s: Subject<Ep> = Subject::default();
            s.register(&request(1, "p", &[1], 0, 0, false));
            for i in 0..(1u64 << 32) + 2 {
                s.resource_changed("p", i as u16, false);
            }
            s.get_resource("p").map(|r| r.sequence)
        });
        match r {
            Some(Some(2)) => cx.case(&line, "2"),
            Some(other) => {
                cx.case(&line, &format!("{:?}", other));
                cx.oracle_fail("C15", &line, &format!("after 2^32 + 2 rounds the sequence number is {:?} instead of 2", other));
            }
            None => {
                cx.case(&line, "panic");
                cx.oracle_fail("C15", &line, "resource_changed panicked within 2^32 + 2 notification rounds (sequence counter overflow)");
            }
        }
    }

    // ---- 3. directed long histories at limits 10, 254, 255 (and 0, 1)
    for &lim in &[0u8, 1, 10, 254, 255] {
        for con_every in [1u32, 2] {
            let mut ops = vec![Op::Limit(lim), Op::Reg(1, "r".into(), vec![1]), Op::Reg(2, "r".into(), vec![2])];
            for i in 0..600u32 {
                ops.push(Op::Chg("r".into(), (i % 65536) as u16, i % con_every == 0));
                if i == 300 {
                    ops.push(Op::Ack(2, 300));
                }
            }
            case_trace(cx, &ops);
        }
    }

    // ---- 4. notification builder
    let seqs: Vec<u32> = vec![0, 1, 255, 256, 257, 65535, 65536, 65537, 0xff_ffff, 0x100_0000, 0x100_0001, u32::MAX - 1, u32::MAX];
    for tl in 0..=9usize {
        for &s in &seqs {
            for con in [false, true] {
                let tok = rng.bytes(tl);
                let pl = rng.below(20) as usize;
                let payload = rng.bytes(pl);
                case_notif(cx, rng.below(65536) as u16, &tok, s, &payload, con);
            }
        }
    }
    for _ in 0..2000 {
        let tl = rng.below(9) as usize;
        let tok = rng.bytes(tl);
        let s = (rng.next() >> rng.below(64)) as u32;
        let pl = rng.below(30) as usize;
        let payload = rng.bytes(pl);
        case_notif(cx, rng.below(65536) as u16, &tok, s, &payload, rng.chance(1, 2));
    }
    let _ = unhex("-");
}
