//! One input of a coverage-guided search = one case (or a few) of a domain.
//!
//! The bytes of the input are the *tape* the structured generators draw from (see `Rng` in
//! lib.rs), or – for the byte/string-level entry points – the datagram / document itself.
//! The fuzz target (harness/fuzz) calls `one` with a writing-nothing context and keeps the
//! inputs that reach new code of the implementation or make a direct oracle fail; the normal
//! harness binary replays those inputs in `corpus` mode, which writes the usual case lines
//! for the Lean driver, so every kept input is also compared with the model.
use crate::blk::{self, Download, ReqShape, Session, Upload};
use crate::pkt::{self, CodeSpec, Op as POp, PktSpec};
use crate::{acc, bv, hex, lf, obs, resp, tape_clear, tape_left, tape_set, uint, Ctx, Rng};

/// option value: length class + bytes from the tape
fn f_value(rng: &mut Rng) -> Vec<u8> {
    let l = match rng.below(10) {
        0 => *rng.pick(&[12usize, 13, 14, 268, 269, 270]),
        1 => rng.below(300) as usize,
        2 => rng.below(1400) as usize,
        _ => rng.below(12) as usize,
    };
    if l > 40 && rng.chance(1, 2) {
        let mut v = vec![rng.below(256) as u8; l];
        let k = rng.below(8) as usize;
        let head = rng.bytes(k.min(l));
        v[..head.len()].copy_from_slice(&head);
        v
    } else {
        rng.bytes(l)
    }
}

fn f_optnum(rng: &mut Rng) -> u16 {
    match rng.below(6) {
        0 => *rng.pick(&[1u16, 3, 4, 5, 6, 7, 8, 11, 12, 14, 15, 17, 20, 23, 27, 28, 35, 39, 60, 258]),
        1 => rng.below(14) as u16,
        2 => rng.range(13, 300) as u16,
        3 => *rng.pick(&[0u16, 12, 13, 14, 268, 269, 270, 65535]),
        4 => rng.below(65536) as u16,
        _ => 11,
    }
}

pub fn f_spec(rng: &mut Rng, wf: bool) -> PktSpec {
    let tkl = if wf { rng.below(9) as usize } else { *rng.pick(&[0usize, 1, 4, 8, 9, 15, 16]) };
    let vtt = if wf { 0x40 | (rng.below(4) as u8) << 4 | tkl as u8 } else { rng.below(256) as u8 };
    let nopts = match rng.below(8) {
        0 => 0,
        7 => rng.below(40) as usize,
        _ => rng.below(5) as usize,
    };
    let mut opts = vec![];
    for _ in 0..nopts {
        let n = f_optnum(rng);
        opts.push((n, f_value(rng)));
    }
    let code = match rng.below(8) {
        0 => CodeSpec::Byte(0),
        1 => CodeSpec::Byte(rng.below(256) as u8),
        2 => CodeSpec::Reserved(rng.below(256) as u8),
        _ => CodeSpec::Byte(*rng.pick(&[1u8, 2, 3, 4, 5, 6, 7, 0x41, 0x45, 0x5f, 0x84, 0xa0])),
    };
    let mut payload = match rng.below(5) {
        0 | 1 => vec![],
        2 => rng.bytes(1),
        3 => {
            let n = rng.below(40) as usize;
            rng.bytes(n)
        }
        _ => {
            let n = rng.below(1500) as usize;
            vec![rng.below(256) as u8; n]
        }
    };
    if wf && code.byte() == 0 {
        payload.clear();
    }
    let tok = rng.bytes(tkl);
    PktSpec { vtt, code, mid: rng.below(65536) as u16, tok, opts, payload }
}

fn f_pop(rng: &mut Rng) -> POp {
    match rng.below(14) {
        0 => POp::Ver(rng.below(256) as u8),
        1 => POp::Typ(rng.below(4) as u8),
        2 => {
            let n = rng.below(10) as usize;
            POp::Tok(rng.bytes(n))
        }
        3 | 4 | 5 => {
            let n = f_optnum(rng);
            POp::Add(n, f_value(rng))
        }
        6 => {
            let k = rng.below(4) as usize;
            let n = f_optnum(rng);
            POp::Set(n, (0..k).map(|_| f_value(rng)).collect())
        }
        7 => POp::Clr(f_optnum(rng)),
        8 => POp::ClrAll,
        9 => POp::Code(CodeSpec::Byte(rng.below(256) as u8)),
        10 => POp::Mid(rng.below(65536) as u16),
        11 => {
            let n = rng.below(400) as usize;
            POp::Pay(rng.bytes(n.min(tape_left().max(1))))
        }
        12 => POp::Tkl(rng.below(17) as u8),
        _ => POp::Mid(rng.below(65536) as u16),
    }
}

fn pkt_one(cx: &mut Ctx, sel: u8, body: &[u8], rng: &mut Rng) {
    match sel % 8 {
        0 | 1 => {
            tape_clear();
            pkt::case_dec(cx, body);
        }
        2 => {
            // a valid fixed header, then the raw input as the option / payload area
            tape_clear();
            let mut b = vec![0x40 | (sel >> 4).min(8), 1 + (sel >> 3 & 1) * 0x44, 0x12, 0x34];
            b.extend(std::iter::repeat(0x74).take(((sel >> 4).min(8)) as usize));
            b.extend_from_slice(body);
            pkt::case_dec(cx, &b);
        }
        3 => {
            let spec = f_spec(rng, sel & 0x80 == 0);
            pkt::case_enc(cx, &spec, Some(None));
            pkt::case_rt(cx, &spec);
            let so = spec.sorted_opts();
            let w = pkt::rfc_wire(spec.vtt, spec.code.byte(), spec.mid, &spec.tok, &so, &spec.payload);
            pkt::case_dec(cx, &w);
            let sent = if spec.code.byte() != 0 { spec.payload.len() } else { 0 };
            let l = pkt::rfc_len(spec.tok.len(), &so, sent);
            let lim = (l as i64 + rng.below(3) as i64 - 1).max(0) as usize;
            pkt::case_enc(cx, &spec, Some(Some(lim)));
            pkt::case_enc(cx, &spec, None);
        }
        4 => {
            let n = 1 + rng.below(12) as usize;
            let ops: Vec<POp> = (0..n).map(|_| f_pop(rng)).collect();
            pkt::case_api(cx, &ops);
        }
        5 => {
            // well-formed image with a few byte edits / truncation
            let spec = f_spec(rng, true);
            let mut w = pkt::rfc_wire(spec.vtt, spec.code.byte(), spec.mid, &spec.tok, &spec.sorted_opts(), &spec.payload);
            let k = rng.below(4);
            for _ in 0..k {
                if w.is_empty() {
                    break;
                }
                let i = rng.below(w.len() as u64) as usize;
                match rng.below(3) {
                    0 => w[i] = rng.below(256) as u8,
                    1 => w.truncate(i),
                    _ => w.insert(i, rng.below(256) as u8),
                }
            }
            pkt::case_dec(cx, &w);
        }
        6 => {
            let spec = f_spec(rng, true);
            let lim = match rng.below(3) {
                0 => None,
                1 => Some(None),
                _ => Some(Some(rng.below(2000) as usize)),
            };
            pkt::case_trace(cx, &spec, lim);
        }
        _ => {
            let n = 1 + rng.below(10) as usize;
            let ops: Vec<POp> = (0..n).map(|_| f_pop(rng)).collect();
            pkt::case_apitrace(cx, &ops);
        }
    }
}

fn lossy(b: &[u8]) -> String {
    String::from_utf8_lossy(b).into_owned()
}

fn f_text(rng: &mut Rng, maxlen: u64) -> String {
    // characters straight from tape bytes (ASCII incl. controls), with some multi-byte ones
    let n = rng.below(maxlen + 1);
    let special = ['\u{e9}', '\u{20ac}', '\u{1f601}', '\u{a0}', '\u{85}', '\u{2003}', '\u{3000}', '\u{2028}', '\u{feff}', '\u{0}'];
    (0..n)
        .map(|_| {
            let b = rng.below(256) as u8;
            if b < 0x80 {
                b as char
            } else {
                special[(b as usize) % special.len()]
            }
        })
        .collect()
}

fn f_doc(rng: &mut Rng) -> lf::Doc {
    let nl = rng.below(4) as usize;
    let keys = ["rt", "if", "sz", "title", "ct", "obs", "k\u{e9}", "x-y", "a1", "anchor", "rel"];
    (0..nl)
        .map(|_| {
            let t: String = f_text(rng, 10).chars().filter(|c| *c != '>').collect();
            let na = rng.below(4) as usize;
            let attrs = (0..na)
                .map(|_| {
                    let k = rng.pick(&keys).to_string();
                    let long = rng.chance(1, 8);
                    match rng.below(6) {
                        0 | 1 => lf::AttrSpec::Plain(k, f_text(rng, if long { 300 } else { 10 })),
                        2 | 3 => lf::AttrSpec::Quoted(k, f_text(rng, if long { 300 } else { 10 })),
                        4 => lf::AttrSpec::U32(k, rng.next() as u32 >> rng.below(32)),
                        _ => lf::AttrSpec::U16(k, rng.below(65536) as u16),
                    }
                })
                .collect();
            (t, attrs)
        })
        .collect()
}

fn lf_one(cx: &mut Ctx, sel: u8, body: &[u8], rng: &mut Rng) {
    match sel % 6 {
        0 | 1 => {
            tape_clear();
            lf::case_parse(cx, &lossy(body));
        }
        2 => {
            tape_clear();
            let t = lossy(body);
            lf::case_cow(cx, &t);
            lf::case_cowk(cx, (sel >> 4) as usize, &t);
        }
        3 => {
            let d = f_doc(rng);
            lf::case_write(cx, &d, sel & 0x80 != 0);
            if sel & 0x40 != 0 {
                lf::case_writenf(cx, &d, sel & 0x80 != 0, rng.below(16));
            }
        }
        4 => {
            let d = f_doc(rng);
            let nl = sel & 0x80 != 0;
            let calls = lf::case_write(cx, &d, nl);
            if calls > 0 {
                let full = lf::fault_free(&d, nl);
                let k = rng.below(calls as u64) as usize;
                lf::case_writef(cx, &d, nl, k, sel & 0x40 != 0, &full);
                // the newline option switched again between links
                if sel & 0x20 != 0 {
                    let flags: String = (0..=d.len()).map(|_| *rng.pick(&['-', '0', '1'])).collect();
                    let c2 = lf::case_writeo(cx, &d, nl, &flags, None, false);
                    if c2 > 0 {
                        let k2 = rng.below(c2 as u64) as usize;
                        lf::case_writeo(cx, &d, nl, &flags, Some(k2), sel & 0x40 != 0);
                    }
                }
            }
        }
        _ => {
            // a written document with a few edits, through the parser
            let d = f_doc(rng);
            let mut s: Vec<char> = lf::fault_free(&d, sel & 0x80 != 0).chars().collect();
            let k = rng.below(4);
            for _ in 0..k {
                if s.is_empty() {
                    break;
                }
                let i = rng.below(s.len() as u64) as usize;
                match rng.below(3) {
                    0 => s[i] = *rng.pick(&['<', '>', ';', ',', '"', '\\', '=', ' ', 'a']),
                    1 => s.truncate(i),
                    _ => s.insert(i, *rng.pick(&['<', '>', ';', ',', '"', '\\', '=', ' ', '\u{e9}'])),
                }
            }
            let s: String = s.into_iter().collect();
            lf::case_parse(cx, &s);
        }
    }
}

fn obs_one(cx: &mut Ctx, sel: u8, rng: &mut Rng) {
    if sel % 8 == 7 {
        let tl = rng.below(10) as usize;
        let tok = rng.bytes(tl);
        let seq = (rng.next() >> rng.below(64)) as u32;
        let pl = rng.below(30) as usize;
        let payload = rng.bytes(pl);
        let mid = rng.below(65536) as u16;
        obs::case_notif(cx, mid, &tok, seq, &payload, sel & 0x80 != 0);
        return;
    }
    let paths = ["a", "a/b", "/a", "sensors/temp", "", "x", "a//b", "a/", "/"];
    let mut ops = vec![];
    if rng.chance(1, 2) {
        ops.push(obs::Op::Limit(rng.below(256) as u8));
    }
    let n = 1 + rng.below(40) as usize;
    for _ in 0..n {
        let e = rng.below(4) as u8;
        let p = if rng.chance(1, 6) { f_text(rng, 6).replace('\u{0}', "z") } else { rng.pick(&paths).to_string() };
        let t = if rng.chance(1, 2) {
            vec![e]
        } else {
            let tl = rng.below(9) as usize;
            rng.bytes(tl)
        };
        let m = if rng.chance(3, 4) { rng.below(4) as u16 } else { rng.below(65536) as u16 };
        ops.push(match rng.below(12) {
            0 | 1 | 2 => obs::Op::Reg(e, p, t),
            3 => obs::Op::Dereg(e, p, t),
            4 | 5 | 6 | 7 => {
                let key = obs::Op::Reg(0, p, vec![]).paths().unwrap();
                let key = if rng.chance(1, 10) { format!("/{}", key) } else { key };
                obs::Op::Chg(key, m, rng.chance(2, 3))
            }
            8 | 9 => obs::Op::Ack(e, m),
            10 => {
                let segs: Vec<Vec<u8>> = (0..rng.below(3)).map(|_| { let k = rng.below(5) as usize; rng.bytes(k) }).collect();
                match rng.below(3) {
                    0 => obs::Op::AckP(e, m, rng.pick(&paths).to_string()),
                    1 => obs::Op::RegRaw(e, segs, t),
                    _ => obs::Op::DeregRaw(e, segs, t),
                }
            }
            _ => if rng.chance(1, 3) {
                let key = obs::Op::Reg(0, p, vec![]).paths().unwrap();
                obs::Op::Seq(key, *rng.pick(&[u32::MAX, u32::MAX - 1, 0xff_ffff, 0xffff, 0]))
            } else {
                obs::Op::Limit(*rng.pick(&[0u8, 1, 2, 5, 254, 255]))
            },
        });
    }
    obs::case_trace(cx, &ops);
}

fn f_shape(rng: &mut Rng, shapes: &[ReqShape]) -> ReqShape {
    let mut s = rng.pick(shapes).clone();
    if rng.chance(1, 3) {
        let k = rng.below(9) as usize;
        s.tok = rng.bytes(k);
    }
    if rng.chance(1, 4) {
        s.path = (0..rng.below(4)).map(|_| { let k = rng.below(6) as usize; rng.bytes(k) }).collect();
    }
    if rng.chance(1, 4) {
        s.code = *rng.pick(&[1u8, 2, 3, 4, 5, 6, 7]);
    }
    if rng.chance(1, 6) {
        let n = *rng.pick(&[3u16, 7, 12, 15, 17, 60]);
        let k = rng.below(20) as usize;
        s.extra.push((n, rng.bytes(k)));
    }
    s
}

fn blk_one(cx: &mut Ctx, sel: u8, rng: &mut Rng) {
    let shapes = blk::default_shapes();
    // some clients write their block option values at a fixed width (leading zero bytes)
    blk::BV_WIDTH.store([0usize, 0, 0, 0, 0, 1, 2, 3][(sel as usize / 6) % 8], std::sync::atomic::Ordering::Relaxed);
    blk_one_inner(cx, sel, rng, &shapes);
    blk::BV_WIDTH.store(0, std::sync::atomic::Ordering::Relaxed);
}

fn blk_one_inner(cx: &mut Ctx, sel: u8, rng: &mut Rng, shapes: &[blk::ReqShape]) {
    let shapes = shapes.to_vec();
    match sel % 6 {
        0 | 1 => blk::run_hostile(cx, rng, &shapes),
        2 => {
            let shape = f_shape(rng, &shapes);
            let m = match rng.below(4) {
                0 => rng.range(30, 120) as usize,
                1 => *rng.pick(&[64usize, 128, 256, 512, 1024, 1152, 1280]),
                _ => rng.range(40, 1280) as usize,
            };
            let len = match rng.below(4) {
                0 => rng.below(70) as usize,
                1 => *rng.pick(&[0usize, 15, 16, 17, 31, 32, 33, 1023, 1024, 1025]),
                _ => rng.below(3000) as usize,
            };
            let body = rng.bytes(len.min(tape_left() + 64));
            let resp_opts = match rng.below(4) {
                0 => vec![(12u16, vec![40]), (4, vec![1, 2, 3])],
                1 => { let k = rng.below(30) as usize; vec![(8u16, rng.bytes(k)), (8, vec![]), (8, b"x".to_vec())] }
                _ => vec![],
            };
            let first_szx = if rng.chance(1, 2) { Some(rng.below(8) as u8) } else { None };
            let reduce_at = if rng.chance(1, 4) { Some((1 + rng.below(3) as usize, rng.below(3) as u8)) } else { None };
            let mut sess = Session::new(m, 60000);
            let followup_toks: Vec<Vec<u8>> = if rng.chance(1, 2) { vec![] } else { (0..1 + rng.below(3)).map(|_| { let k = rng.below(9) as usize; rng.bytes(k) }).collect() };
            blk::run_download(cx, &Download { shape: &shape, ep: rng.below(3) as u8, m, body, resp_opts, first_szx, reduce_at, followup_toks }, &mut sess, sel & 0x80 != 0);
        }
        3 => {
            let shape = f_shape(rng, &shapes);
            let m = match rng.below(3) {
                0 => rng.range(40, 140) as usize,
                _ => *rng.pick(&[64usize, 128, 256, 1152, 1280]),
            };
            let szx = rng.below(7) as u8;
            let len = match rng.below(3) {
                0 => rng.below(100) as usize,
                _ => rng.below(6 * (16usize << szx) as u64 + 2) as usize,
            };
            let body = rng.bytes(len);
            let dups: Vec<usize> = (0..1 + rng.below(3)).map(|_| 1 + rng.below(3) as usize).collect();
            let abandoned = if rng.chance(1, 3) {
                let l2 = rng.below(300) as usize;
                Some((rng.bytes(l2), rng.below(4) as u8, 1 + rng.below(6) as usize))
            } else {
                None
            };
            let mut sess = Session::new(m, 60000);
            blk::run_upload(cx, &Upload { shape: &shape, ep: rng.below(3) as u8, m, body, szx, dups, abandoned, dup_final: 0, fresh_tokens: rng.chance(1, 3) }, &mut sess);
        }
        4 => {
            if rng.chance(1, 2) {
                blk::run_lifetime(cx, rng, &shapes)
            } else {
                blk::run_keepalive(cx, rng, &shapes);
                if rng.chance(1, 4) {
                    blk::run_slow_app(cx, rng, &shapes)
                }
            }
        }
        _ => {
            // two transfers on keys that differ in endpoint, method or path, all interleavings
            let a = f_shape(rng, &shapes);
            let mut b = a.clone();
            let mut epb = 1u8;
            match rng.below(3) {
                0 => epb = 2,
                1 => b.code = if a.code == 1 { 2 } else { 1 },
                _ => b.path.push(b"z".to_vec()),
            }
            let la = 20 + rng.below(60) as usize;
            let lb = 20 + rng.below(60) as usize;
            let (ba, bb) = (rng.bytes(la), rng.bytes(lb));
            let s1 = if rng.chance(1, 2) { blk::download_script(&a, 1, &ba, 0, 100) } else { blk::upload_script(&a, 1, &ba, 0, 100) };
            let mb2 = if rng.chance(1, 3) { 100 } else { 200 };
            let s2 = if rng.chance(1, 2) { blk::download_script(&b, epb, &bb, 0, mb2) } else { blk::upload_script(&b, epb, &bb, 0, mb2) };
            let codes = [0x45u8, 0x41, 0x42, 0x43, 0x44, 0x5f, 0x80, 0x84, 0x8c, 0x8d, 0xa0, 0xa3];
            let (s1, s2) = (s1.with_code(*rng.pick(&codes)), s2.with_code(*rng.pick(&codes)));
            if rng.chance(1, 2) {
                blk::run_interleavings(cx, &s1, &s2, 64);
            } else {
                blk::run_pipelined(cx, &s1, &s2, 64, rng.chance(1, 2));
            }
        }
    }
}

fn f_u64(rng: &mut Rng) -> u64 {
    match rng.below(4) {
        0 => rng.below(256),
        1 => rng.below(65536),
        2 => rng.next() >> rng.below(64),
        _ => *rng.pick(&[0u64, 255, 256, 65535, 65536, 0xff_ffff, 0x100_0000, 0xffff_ffff, 0x1_0000_0000, u64::MAX]),
    }
}

fn uint_one(cx: &mut Ctx, sel: u8, body: &[u8], rng: &mut Rng) {
    let w = [1u32, 2, 4, 8][(sel >> 4 & 3) as usize];
    match sel % 5 {
        0 => {
            let v = f_u64(rng);
            uint::do_enc(cx, w, if w >= 8 { v } else { v & ((1u64 << (8 * w)) - 1) });
        }
        1 => {
            tape_clear();
            uint::do_dec(cx, w, &body[..body.len().min(12)]);
        }
        2 => {
            tape_clear();
            uint::do_sdec(cx, &body[..body.len().min(64)]);
        }
        _ => {
            let nums = [6u16, 11, 12, 14, 60, 258, 1000];
            let n = 1 + rng.below(7) as usize;
            let mut ops: Vec<String> = vec![];
            let val = |rng: &mut Rng, w: u32| -> u64 {
                let v = f_u64(rng);
                if w >= 8 { v } else { v & ((1u64 << (8 * w)) - 1) }
            };
            for _ in 0..n {
                let num = *rng.pick(&nums);
                let w = *rng.pick(&[1u32, 2, 4, 8]);
                ops.push(match rng.below(12) {
                    0 | 1 => format!("addu {} {} {}", w, num, val(rng, w)),
                    2 => format!("adds {} {}", num, hex(f_text(rng, 8).as_bytes())),
                    3 => {
                        let k = rng.below(11) as usize;
                        format!("addraw {} {}", num, hex(&rng.bytes(k)))
                    }
                    4 => {
                        let k = rng.below(4);
                        let xs: Vec<String> = (0..k).map(|_| val(rng, w).to_string()).collect();
                        format!("setu {} {} {}", w, num, if xs.is_empty() { "_".into() } else { xs.join(",") })
                    }
                    5 => {
                        let k = rng.below(3);
                        let xs: Vec<String> = (0..k).map(|_| hex(f_text(rng, 6).as_bytes())).collect();
                        format!("sets {} {}", num, if xs.is_empty() { "_".into() } else { xs.join(",") })
                    }
                    6 => format!("clr {}", num),
                    7 => format!("obs {}", val(rng, 4)),
                    8 => "getobs".to_string(),
                    9 => format!("getu {} {}", w, num),
                    10 => format!("firstu {} {}", w, num),
                    _ => format!("gets {}", num),
                });
            }
            let num = *rng.pick(&nums);
            ops.push(format!("raw {}", num));
            ops.push(format!("getu {} {}", *rng.pick(&[1u32, 2, 4, 8]), num));
            ops.push(format!("firsts {}", num));
            ops.push("getobs".to_string());
            uint::acc_case(cx, &ops);
        }
    }
}

fn bv_one(cx: &mut Ctx, sel: u8, body: &[u8], rng: &mut Rng) {
    if sel % 2 == 0 {
        let num = match rng.below(3) {
            0 => rng.below(1 << 21) as usize,
            1 => (rng.next() >> rng.below(64)) as usize,
            _ => *rng.pick(&[0usize, 1, 4095, 4096, 65535, 65536, (1 << 20) - 1, 1 << 20, usize::MAX]),
        };
        let size = match rng.below(3) {
            0 => rng.below(5000) as usize,
            1 => (rng.next() >> rng.below(64)) as usize,
            _ => *rng.pick(&[0usize, 1, 15, 16, 17, 1023, 1024, 2047, 2048, 4095, 4096, usize::MAX]),
        };
        bv::do_new(cx, num, sel & 0x80 != 0, size);
    } else {
        tape_clear();
        bv::do_dec(cx, &body[..body.len().min(6)]);
    }
}

fn resp_one(cx: &mut Ctx, sel: u8, rng: &mut Rng) {
    let spec = f_spec(rng, sel & 0x80 == 0);
    if sel % 2 == 0 {
        resp::case_new(cx, &spec);
    } else {
        let code = if rng.chance(1, 8) { None } else { Some(rng.below(256) as u8) };
        let msg = f_text(rng, 12).into_bytes();
        let npre = rng.below(3);
        let pre: Vec<(u16, Vec<u8>)> = (0..npre).map(|_| { let n = *rng.pick(&[4u16, 12, 12, 14, 27, 60]); let k = rng.below(4) as usize; (n, rng.bytes(k)) }).collect();
        let ntw = rng.below(3);
        let tweaks: Vec<resp::Tweak> = (0..ntw)
            .map(|_| match rng.below(9) {
                8 => resp::Tweak::Code(rng.below(256) as u8),
                7 => { let k = rng.below(6) as usize; resp::Tweak::Pay(rng.bytes(k)) }
                6 => resp::Tweak::NoResp,
                5 => resp::Tweak::Clr(*rng.pick(&[4u16, 12, 12, 14, 27, 60])),
                0 => resp::Tweak::Mid(rng.below(65536) as u16),
                1 => { let k = rng.below(9) as usize; resp::Tweak::Tok(rng.bytes(k)) }
                2 => resp::Tweak::Typ(rng.below(4) as u8),
                3 => resp::Tweak::ReqMid(rng.below(65536) as u16),
                _ => { let k = rng.below(9) as usize; resp::Tweak::ReqTok(rng.bytes(k)) }
            })
            .collect();
        resp::case_err_tweaked(cx, &spec, code, &msg, &pre, &tweaks);
    }
}

fn acc_one(cx: &mut Ctx, sel: u8, rng: &mut Rng) {
    if sel % 3 == 0 {
        let mut spec = f_spec(rng, true);
        spec.opts.truncate(12);
        let cleared: Vec<u16> = (0..rng.below(3)).map(|_| if spec.opts.is_empty() { 11 } else { spec.opts[rng.below(spec.opts.len() as u64) as usize].0 }).collect();
        if sel & 0x80 == 0 {
            acc::view_case(cx, &spec, &cleared);
            if sel & 0x40 != 0 {
                let adds: Vec<(u16, Vec<u8>)> = (0..rng.below(4)).map(|_| { let n = *rng.pick(&[1u16, 4, 6, 11, 12, 15, 23, 27, 60, 258, 300, 65535, 0]); let k = rng.below(4) as usize; (n, rng.bytes(k)) }).collect();
                let k = rng.below(4) as usize;
                let pay = rng.bytes(k);
                acc::wadd_case(cx, &spec, &cleared, &adds, rng.below(256) as u8, &pay);
            }
        } else {
            let len = rng.below(600) as usize;
            let t = rng.below(700) as usize;
            acc::mut_case(cx, &spec, &cleared, rng.below(256) as u8, len, t);
        }
        return;
    }
    static CFS: std::sync::OnceLock<Vec<u64>> = std::sync::OnceLock::new();
    let named_cf = CFS.get_or_init(|| {
        let reg = crate::tbl::load_registry();
        let v: Vec<u64> = reg.tables.get("content_formats").map(|t| t.keys().cloned().collect()).unwrap_or_default();
        if v.is_empty() { vec![0] } else { v }
    });
    let n = 1 + rng.below(8) as usize;
    let mut ops: Vec<String> = vec![];
    for _ in 0..n {
        ops.push(match rng.below(14) {
            0 => {
                let num = *rng.pick(&[6u16, 11, 12, 15, 11, 12]);
                let k = rng.below(6) as usize;
                format!("addraw {} {}", num, hex(&rng.bytes(k)))
            }
            1 => format!("path {}", hex(f_text(rng, 12).replace('\u{0}', "/").as_bytes())),
            2 => if rng.chance(1, 2) { "pathsame".to_string() } else { format!("path {}", hex(f_text(rng, 6).replace('\u{0}', "/").as_bytes())) },
            3 => format!("method {}", rng.below(256)),
            4 => format!("status {}", rng.below(256)),
            5 => format!("obsflag {}", rng.below(2)),
            6 => format!("cf {}", rng.pick(named_cf)),
            7 => format!("clr {}", rng.pick(&[6u16, 11, 12])),
            8 => "getpath".into(),
            9 => "getvec".into(),
            10 => format!("raw {}", rng.pick(&[6u16, 11, 12])),
            11 => "getobs".into(),
            12 => "getcf".into(),
            _ => (*rng.pick(&["getmethod", "getstatus", "code"])).to_string(),
        });
    }
    for tail in ["getpath", "getvec", "raw 11", "raw 12", "raw 6", "getobs", "getcf", "getmethod", "getstatus", "code"] {
        ops.push(tail.into());
    }
    acc::req_case(cx, &ops);
}

/// run one input of `domain`
pub fn one(cx: &mut Ctx, domain: &str, data: &[u8]) {
    if data.is_empty() {
        return;
    }
    let sel = data[0];
    let body = &data[1..];
    tape_set(body);
    let mut rng = Rng(0x0005_eed0 ^ data.len() as u64);
    match domain {
        "PKT" => pkt_one(cx, sel, body, &mut rng),
        "LF" => lf_one(cx, sel, body, &mut rng),
        "OBS" => obs_one(cx, sel, &mut rng),
        "BLK" => blk_one(cx, sel, &mut rng),
        "UINT" => uint_one(cx, sel, body, &mut rng),
        "BV" => bv_one(cx, sel, body, &mut rng),
        "RESP" => resp_one(cx, sel, &mut rng),
        "ACC" => acc_one(cx, sel, &mut rng),
        _ => {}
    }
    tape_clear();
}
