//! Support for C04's memory-safety clause (thorough tier): the serialiser's reserve + raw-pointer
//! copies and the decoder's indexing are executed under Miri (stacked borrows, uninitialised-read
//! and out-of-bounds detection) on boundary-directed messages. Not a proof: it interprets the real
//! code on these inputs only. Prints one line per case class and `MIRI-OK <n>` at the end.
use coap_lite::{CoapOption, MessageClass, MessageType, Packet, RequestType};

fn val(len: usize, seed: u8) -> Vec<u8> {
    (0..len).map(|i| (i as u8).wrapping_mul(31).wrapping_add(seed)).collect()
}

fn main() {
    let mut n = 0usize;
    let deltas: [u16; 9] = [0, 1, 12, 13, 14, 268, 269, 270, 65535];
    let lens: [usize; 9] = [0, 1, 12, 13, 14, 268, 269, 270, 1000];
    let toks: [usize; 2] = [0, 8];
    let pays: [usize; 2] = [0, 300];
    for &d in &deltas {
        for &l in &lens {
            for &t in &toks {
                for &p in &pays {
                    let mut pk = Packet::new();
                    pk.header.set_type(MessageType::Confirmable);
                    pk.header.code = MessageClass::Request(RequestType::Post);
                    pk.header.message_id = 0x1234;
                    pk.set_token(val(t, 7));
                    pk.add_option(CoapOption::from(d), val(l, 3));
                    if d < 65535 {
                        pk.add_option(CoapOption::from(d), val(l / 2, 5));
                        pk.add_option(CoapOption::from(d.saturating_add(14)), val(13, 9));
                    }
                    pk.payload = val(p, 1);
                    let unl = pk.to_bytes_unlimited().expect("unlimited");
                    for lim in [0usize, 3, 4, unl.len().saturating_sub(1), unl.len(), unl.len() + 1] {
                        match pk.to_bytes_with_limit(lim) {
                            Ok(b) => {
                                assert!(b.len() <= lim && b == unl);
                                // every byte of the output is initialised: Miri checks the reads
                                let s: u32 = b.iter().map(|&x| x as u32).sum();
                                std::hint::black_box(s);
                            }
                            Err(_) => assert!(unl.len() > lim),
                        }
                    }
                    let _ = pk.to_bytes();
                    let back = Packet::from_bytes(&unl).expect("decode");
                    assert_eq!(back.to_bytes_unlimited().unwrap(), unl);
                    // truncations and single-byte corruptions of the image through the decoder
                    for cut in [0usize, 1, 3, 4, 5, unl.len() / 2, unl.len().saturating_sub(1)] {
                        let _ = Packet::from_bytes(&unl[..cut.min(unl.len())]);
                    }
                    if unl.len() > 5 {
                        let mut c = unl.clone();
                        let ix = 4 + t.min(c.len() - 5);
                        c[ix] ^= 0xF0;
                        let _ = Packet::from_bytes(&c);
                    }
                    n += 1;
                }
            }
        }
    }
    // emptied option entries, code 0.00 with payload, value at the 16-bit length limit
    let mut pk = Packet::new();
    pk.add_option(CoapOption::UriPath, val(20, 1));
    pk.clear_option(CoapOption::UriPath);
    pk.add_option(CoapOption::UriQuery, val(300, 2));
    pk.header.code = MessageClass::Empty;
    pk.payload = val(40, 3);
    let b = pk.to_bytes().unwrap();
    std::hint::black_box(b.iter().map(|&x| x as u32).sum::<u32>());
    let mut big = Packet::new();
    big.add_option(CoapOption::from(65000u16), val(65804, 4));
    let b = big.to_bytes_unlimited().unwrap();
    std::hint::black_box(b.iter().map(|&x| x as u32).sum::<u32>());
    big.add_option(CoapOption::from(65001u16), val(65805, 4));
    assert!(big.to_bytes_unlimited().is_err());
    n += 3;
    println!("MIRI-OK {}", n);
}
