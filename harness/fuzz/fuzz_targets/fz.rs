//! Coverage-guided search over one harness domain (VERIF_FUZZ_DOMAIN). The real coap-lite
//! code is instrumented; an input that makes a direct oracle fail is copied to
//! $VERIF_FUZZ_FINDINGS (the search goes on). Kept corpus + findings are replayed by the normal
//! harness binary in `corpus` mode, which also puts them through the Lean model.
#![no_main]
use libfuzzer_sys::fuzz_target;
use std::sync::OnceLock;

struct Cfg {
    domain: String,
    findings: Option<String>,
}
static CFG: OnceLock<Cfg> = OnceLock::new();

fn fnv(b: &[u8]) -> u64 {
    let mut h: u64 = 0xcbf29ce484222325;
    for x in b {
        h ^= *x as u64;
        h = h.wrapping_mul(0x100000001b3);
    }
    h
}

fuzz_target!(|data: &[u8]| {
    let cfg = CFG.get_or_init(|| {
        // libfuzzer-sys aborts on panic through its hook; the harness catches panics itself
        // (a panic of the code under test is an outcome to be compared, not a crash)
        std::panic::set_hook(Box::new(|_| {}));
        Cfg { domain: std::env::var("VERIF_FUZZ_DOMAIN").unwrap_or_else(|_| "PKT".into()), findings: std::env::var("VERIF_FUZZ_FINDINGS").ok() }
    });
    let mut cx = harness::Ctx::sink();
    harness::fuzz::one(&mut cx, &cfg.domain, data);
    if !cx.captured.is_empty() {
        if let Some(dir) = &cfg.findings {
            // one file per (property, detail prefix) class keeps the directory small
            let (p, _l, d) = &cx.captured[0];
            let class = fnv(format!("{}{}", p, &d[..d.len().min(40)]).as_bytes()) % 64;
            let path = format!("{}/finding-{}-{:02}", dir, p, class);
            if !std::path::Path::new(&path).exists() {
                let _ = std::fs::write(&path, data);
            }
        }
    }
});
